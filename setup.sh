#!/bin/sh
# Offline setup: install the contract libraries beside the repository's interpreter.
# Idempotent; every check calls the same routine (vf/env.py) because a fresh restore has
# only committed files.
set -e
cd "$(dirname "$0")"
if [ ! -d .deps/icontract ] || [ ! -d .deps/deal ]; then
  PIP_NO_INDEX=1 /venv/bin/pip install --quiet --no-index --find-links /opt/veriftools/wheels \
      --target .deps icontract deal >/dev/null 2>&1 || {
    echo "setup: offline install of icontract/deal failed" >&2; exit 1; }
fi
/venv/bin/python -c "import sys; sys.path.insert(0,'.deps'); import icontract, deal; print('setup ok: icontract', icontract.__version__, 'deal', deal.__version__)"

#!/bin/sh
# tools/sweep.sh <tier> <seed>... : runs every registered check at the tier for each seed; one status line per run.
tier="$1"; shift
for seed in "$@"; do
  for c in C01 C02 C03 C04 C05 C06 C07 C08 C09 C10 C11 C12 C13 C14 C15 C16 C17 C18 C19 C20; do
    start=$(date +%s)
    out=$(VERIF_SEED=$seed ./check $c --tier $tier 2>&1); rc=$?
    echo "rc=$rc t=$(( $(date +%s) - start ))s $(echo "$out" | grep -E "^C[0-9]+ " | tail -1)"
    if [ $rc -ne 0 ]; then echo "$out" | grep -E "^(VIOLATION|INCONCLUSIVE|  clause)" | head -8 | cut -c1-400; fi
  done
done

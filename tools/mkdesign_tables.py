#!/venv/bin/python
"""Regenerates the generated sections of DESIGN.md (between the BEGIN/END markers):
findings table (from known_findings.json) and seeded-change matrix (from seeded/*/meta.json)."""
import glob, json, os, re
V = os.path.dirname(os.path.dirname(os.path.abspath(__file__)))
d = json.load(open(os.path.join(V, "known_findings.json")))
rows = ["| id | property | status | commit | where / clause | trigger -> symptom | what |", "|---|---|---|---|---|---|---|"]
for f in d["findings"]:
    desc = re.sub(r"^fixed: property=\S+ \S+ ", "", f.get("description", ""))
    rows.append(f"| {f['id']} | {f['property']} | {f['status']} | {f.get('commit','-')} | {f.get('where')} / {f.get('clause')} | "
                f"{f.get('trigger')} -> {f.get('symptom')} | {desc[:230].replace('|','/')} |")
findings = "\n".join(rows)
rows = ["| id | breaks | what was changed | needs to manifest | caught by (quick tier) | first line of the alarm |", "|---|---|---|---|---|---|"]
for p in sorted(glob.glob(os.path.join(V, "seeded", "*", "meta.json"))):
    m = json.load(open(p))
    det = m.get("detection", {})
    caught = ", ".join(f"{c}" for c, v in det.items() if v.get("detected")) or "NOT CAUGHT"
    first = ""
    for c, v in det.items():
        ls = [x for x in v.get("first_lines", []) if x.startswith("  clause")]
        if ls:
            first = ls[0].strip()[:150]
            break
    hist = m.get("strengthened", "")
    if m.get("note"):
        caught = (caught + " - " if caught != "NOT CAUGHT" else "not claimed - ") + m["note"][:400]
    rows.append(f"| {m['id']} | {m['breaks_property']} | {m.get('summary','')[:160].replace('|','/')} | "
                f"{m.get('needs_to_manifest','')[:170].replace('|','/')} | {caught}{' (after: ' + hist + ')' if hist else ''} | {first.replace('|','/')} |")
seeded = "\n".join(rows)
s = open(os.path.join(V, "DESIGN.md")).read()
for tag, body in (("FINDINGS", findings), ("SEEDED", seeded)):
    s = re.sub(rf"<!-- BEGIN {tag} -->.*?<!-- END {tag} -->", lambda m, body=body, tag=tag: f"<!-- BEGIN {tag} -->\n{body}\n<!-- END {tag} -->", s, flags=re.S)
open(os.path.join(V, "DESIGN.md"), "w").write(s)
print("tables regenerated")

#!/venv/bin/python
"""Evaluate seeded changes: tools/seedeval.py <src-dir> [<src-dir> ...] [--tier quick] [--only C05]

A source dir holds X.patch.diff, demo_X.py, X.meta.json (as delivered by the sub-agents, e.g.
/tmp/seed/C05/out) or an already kept /verif/seeded/<id>/ directory (patch.diff, demo.py, meta.json).
For each change: a scratch worktree of /repo HEAD is created outside /repo and /verif, the patch is
applied, the pinned tests are run there (must pass), the demonstration is run against the pristine
tree (must pass) and the changed tree (must fail), then the property's check is run with
VF_REPO=<worktree>.  Results are printed and, for confirmed changes, stored under /verif/seeded/<id>/.
"""
import glob
import json
import os
import shutil
import subprocess
import sys
import tempfile

VERIF = os.path.dirname(os.path.dirname(os.path.abspath(__file__)))
PY = "/venv/bin/python"


def sh(cmd, cwd=None, env=None, timeout=3600):
    p = subprocess.run(cmd, cwd=cwd, env=env, shell=isinstance(cmd, str), stdout=subprocess.PIPE,
                       stderr=subprocess.STDOUT, timeout=timeout)
    return p.returncode, p.stdout.decode(errors="replace")


SEED = "0"      # --seed N: evaluate under another VERIF_SEED (results are printed, the kept meta.json is not rewritten)


def evaluate(patch, demo, meta, sid, tier, checks=None):
    prop = meta["property"]
    wt = tempfile.mkdtemp(prefix="vf-seed-")
    os.rmdir(wt)
    res = {"id": sid, "property": prop}
    try:
        rc, out = sh(["git", "-C", "/repo", "worktree", "add", "-q", "--detach", wt, "HEAD"])
        assert rc == 0, out
        env = dict(os.environ, PYTHONPATH=wt, PYTHONDONTWRITEBYTECODE="1")
        penv = dict(os.environ, PYTHONPATH="/repo", PYTHONDONTWRITEBYTECODE="1")
        # the demonstration is run from a copy in an empty directory (some demos put their own parent
        # directory on sys.path), with the tree under test as cwd, PYTHONPATH and every *_ROOT variable
        ddir = tempfile.mkdtemp(prefix="vf-demo-")
        dcopy = os.path.join(ddir, "out", "demo.py")
        os.makedirs(os.path.dirname(dcopy))
        shutil.copy(demo, dcopy)
        for e_, root_ in ((penv, "/repo"), (env, wt)):
            for k in ("FM_ROOT", "FM_REPO", "FM_METAMODEL_ROOT"):
                e_[k] = root_
        rc, out = sh([PY, dcopy], cwd="/repo", env=penv, timeout=900)
        res["demo_pristine_passes"] = rc == 0
        rc, out = sh(["git", "-C", wt, "apply", os.path.abspath(patch)])
        res["applies"] = rc == 0
        if rc != 0:
            res["apply_error"] = out[-300:]
            return res
        rc, out = sh([PY, "-m", "pytest", "-q", "-p", "no:cacheprovider"], cwd=wt, env=env, timeout=1800)
        res["pinned_tests_pass"] = rc == 0 and "144 passed" in out
        res["pinned_tail"] = out.strip().splitlines()[-1] if out.strip() else ""
        rc, out = sh([PY, dcopy], cwd=wt, env=env, timeout=900)
        shutil.rmtree(ddir, ignore_errors=True)
        res["demo_fails_with_change"] = rc != 0
        res["demo_output"] = out[-400:]
        det = {}
        for c in (checks or [prop]):
            cenv = dict(os.environ, VF_REPO=wt, VF_EVIDENCE_DIR="/tmp/vf-selftest-evidence", VERIF_SEED=SEED)
            rc, out = sh([os.path.join(VERIF, "check"), c, "--tier", tier], cwd=VERIF, env=cenv, timeout=6 * 3600)
            lines = [ln for ln in out.splitlines() if ln.startswith(("VIOLATION", "  clause", "INCONCLUSIVE", c + " "))]
            det[c] = {"exit": rc, "detected": rc == 1, "lines": lines[:4]}
        res["checks"] = det
        res["detected"] = any(d["detected"] for d in det.values())
    finally:
        sh(["git", "-C", "/repo", "worktree", "remove", "--force", wt])
        shutil.rmtree(wt, ignore_errors=True)
    return res


def main():
    args = [a for a in sys.argv[1:] if not a.startswith("--")]
    tier = "quick"
    only = None
    extra = None
    rnd = ""
    for i, a in enumerate(sys.argv):
        if a == "--seed":
            global SEED
            SEED = sys.argv[i + 1]
        if a == "--round":
            rnd = sys.argv[i + 1]
        if a == "--tier":
            tier = sys.argv[i + 1]
        if a == "--only":
            only = sys.argv[i + 1]
        if a == "--checks":
            extra = sys.argv[i + 1].split(",")
    args = [a for a in args if a not in (tier, only, rnd) and (not extra or a != ",".join(extra)) and not (SEED != "0" and a == SEED)]
    results = []
    for src in args:
        if os.path.exists(os.path.join(src, "patch.diff")):
            items = [(os.path.join(src, "patch.diff"), os.path.join(src, "demo.py"), os.path.join(src, "meta.json"),
                      os.path.basename(src.rstrip("/")))]
        else:
            items = []
            for p in sorted(glob.glob(os.path.join(src, "*.patch.diff"))):
                x = os.path.basename(p).split(".")[0]
                items.append((p, os.path.join(src, f"demo_{x}.py"), os.path.join(src, f"{x}.meta.json"), None))
        for patch, demo, metaf, sid in items:
            meta = json.load(open(metaf))
            if sid is None:
                sid = f"{meta['property']}-{rnd}{os.path.basename(patch).split('.')[0]}"
            if only and not sid.startswith(only):
                continue
            r = evaluate(patch, demo, meta, sid, tier, extra)
            results.append(r)
            ok = r.get("applies") and r.get("pinned_tests_pass") and r.get("demo_pristine_passes") and r.get("demo_fails_with_change")
            print(f"{sid}: confirmed={bool(ok)} detected={r.get('detected')} "
                  f"[applies={r.get('applies')} tests={r.get('pinned_tests_pass')} demo_pristine={r.get('demo_pristine_passes')} "
                  f"demo_changed_fails={r.get('demo_fails_with_change')}]")
            for c, d in (r.get("checks") or {}).items():
                for ln in d["lines"][:3]:
                    print("     ", ln[:230])
            sys.stdout.flush()
            if ok and SEED == "0":
                dest = os.path.join(VERIF, "seeded", sid)
                os.makedirs(dest, exist_ok=True)
                if os.path.abspath(patch) != os.path.abspath(os.path.join(dest, "patch.diff")):
                    shutil.copy(patch, os.path.join(dest, "patch.diff"))
                    shutil.copy(demo, os.path.join(dest, "demo.py"))
                m = dict(meta)
                m.update({"id": sid, "breaks_property": meta["property"],
                          "confirmed": {"patch_applies_to_repo_HEAD": True, "pinned_144_tests_pass_with_change": True,
                                        "demo_passes_without_change": True, "demo_fails_with_change": True},
                          "what_i_ran": f"tools/seedeval.py (scratch worktree of /repo HEAD, git apply, pytest, demo, "
                                        f"VF_REPO=<worktree> ./check <ID> --tier {tier})",
                          "detection": {c: {"tier": tier, "detected": d["detected"], "exit": d["exit"], "first_lines": d["lines"][:2]}
                                        for c, d in (r.get("checks") or {}).items()}})
                old = os.path.join(dest, "meta.json")
                if os.path.exists(old):
                    try:
                        prev = json.load(open(old)).get("detection_history", [])
                    except Exception:  # noqa: BLE001
                        prev = []
                    m["detection_history"] = prev
                json.dump(m, open(old, "w"), indent=1)
    print(json.dumps({"confirmed_and_detected": sum(1 for r in results if r.get("detected")), "total": len(results)}))


if __name__ == "__main__":
    main()

"""pytest plugin: run the repository's own pinned tests with the ambient contracts on
(-p vf.pytest_contracts; output file named by VF_CONTRACT_OUT)."""
import os


def pytest_configure(config):
    from vf import env
    env.bootstrap()
    from vf.monitors import contracts
    contracts.install()


def pytest_sessionfinish(session, exitstatus):
    from vf.monitors import contracts
    out = os.environ.get("VF_CONTRACT_OUT")
    if out:
        contracts.dump(out)

"""Shards a check over the cores, aggregates, classifies, writes evidence, prints the verdict.

Exit codes: 0 held on what was observed (KNOWN-FINDING lines allowed) - 1 violated (VIOLATION
lines) - 2 inconclusive (INCONCLUSIVE line; no verdict about the property).
"""
import argparse
import concurrent.futures
import hashlib
import importlib
import json
import os
import shutil
import subprocess
import sys
import tempfile
import time

from . import env


def run_shards(prop, descs, timeout, extra_env=None, optimize_odd=False):
    work = tempfile.mkdtemp(prefix="vf-")
    outs = [None] * len(descs)
    problems = []

    def one(i):
        d, o = os.path.join(work, f"d{i}.json"), os.path.join(work, f"o{i}.json")
        with open(d, "w", encoding="utf-8") as fh:
            json.dump(descs[i], fh)
        try:
            # environment variation: every second shard runs under `python -O` (assert statements compiled out)
            flags = ["-O"] if (optimize_odd and i % 2 == 1) else []
            p = subprocess.run([env.PYTHON] + flags + ["-m", "vf.shardmain", prop, d, o], cwd=env.VERIF,
                               env=env.child_env(extra_env), timeout=timeout,
                               stdout=subprocess.PIPE, stderr=subprocess.PIPE)
        except subprocess.TimeoutExpired:
            return i, None, "shard-timeout"
        if p.returncode != 0 or not os.path.exists(o):
            return i, None, f"shard-exit-{p.returncode}: {p.stderr.decode(errors='replace')[-600:]}"
        with open(o, encoding="utf-8") as fh:
            return i, json.load(fh), None

    try:
        with concurrent.futures.ThreadPoolExecutor(max_workers=min(16, os.cpu_count() or 4)) as ex:
            for i, out, prob in ex.map(one, range(len(descs))):
                outs[i] = out
                if prob:
                    problems.append(f"shard {i}: {prob}")
    finally:
        shutil.rmtree(work, ignore_errors=True)
    return outs, problems


def main(argv=None):
    ap = argparse.ArgumentParser()
    ap.add_argument("prop")
    ap.add_argument("--tier", default="quick", choices=["quick", "thorough"])
    ap.add_argument("--replay")
    args = ap.parse_args(argv)
    prop = args.prop.upper()
    tier = os.environ.get("VERIF_TIER") or args.tier
    if tier not in ("quick", "thorough"):
        tier = args.tier
    try:
        seed = int(os.environ.get("VERIF_SEED", "0"))
    except ValueError:
        seed = 0
    t0 = time.time()
    env.ensure_deps()
    sys.path.insert(0, env.VERIF)
    mod = importlib.import_module(f"vf.checks.{prop.lower()}")

    if args.replay:
        with open(args.replay, encoding="utf-8") as fh:
            rp = json.load(fh)
        descs = [{"replay": rp["payload"], "tier": tier, "seed": rp.get("seed", seed)}]
        if rp.get("python_O"):
            descs = [{"noop": True}] + descs      # the witness was observed under `python -O`: replay it in an odd shard
    else:
        descs = mod.plan(tier, seed)
        for d in descs:
            d.setdefault("tier", tier)
            d.setdefault("seed", seed)
    timeout = getattr(mod, "TIMEOUT", {}).get(tier, 1500 if tier == "quick" else 6 * 3600)
    optimize_odd = getattr(mod, "OPTIMIZE_ODD_SHARDS", True) and (not args.replay or len(descs) == 2)
    outs, problems = run_shards(prop, descs, timeout, optimize_odd=optimize_odd)

    from .acc import Acc
    from . import findings
    acc = Acc.merge(prop, [o for o in outs if o])
    reach = {}
    for o in outs:
        if o:
            for k, v in o.get("reach", {}).items():
                reach[k] = reach.get(k, 0) + v
    inconclusive = list(problems) + list(acc.inconclusive)
    if hasattr(mod, "finalize") and not args.replay:
        try:
            mod.finalize(acc, tier, seed)
        except Exception as e:  # noqa: BLE001
            inconclusive.append(f"finalize-exception: {type(e).__name__}: {e}")
        inconclusive += [x for x in acc.inconclusive if x not in inconclusive]

    # ---- classification of refuting observations
    entries = findings.load()
    known = {}
    violations = []
    for f in acc.fails:
        ids = findings.classify(prop, f, entries)
        if ids is None:
            violations.append(f)
        else:
            for i in ids:
                known[i] = known.get(i, 0) + 1
    # groups whose sample records were dropped (only counts kept) are classified through the group key
    n_known = n_viol = 0
    for (clause, where, tags, symptom), cnt in acc.fail_groups.items():
        ids = findings.classify(prop, {"clause": clause, "where": where, "tags": list(tags), "symptom": symptom}, entries)
        if ids is None:
            n_viol += cnt
        else:
            n_known += cnt

    # ---- reach: deciding anchors must have been activated
    anchors = getattr(mod, "ANCHORS", [])
    reach_sel = {}
    if not args.replay:
        for a in anchors:
            c = reach.get(a, 0)
            reach_sel[a] = c
            if c == 0:
                inconclusive.append(f"anchor-never-reached: {a}")
        if acc.evaluations < getattr(mod, "MIN_EVAL", 1):
            inconclusive.append(f"too-few-evaluations: {acc.evaluations}")

    # ---- replay files + verdict lines
    lines = []
    seen_groups = set()
    rdir = os.path.join(env.VERIF, "replays", prop)
    for v in violations:
        g = (v["clause"], v["where"], tuple(v["tags"]), v["symptom"])
        if g in seen_groups:
            continue
        seen_groups.add(g)
        os.makedirs(rdir, exist_ok=True)
        h = hashlib.sha256(json.dumps(v, sort_keys=True, default=str).encode()).hexdigest()[:12]
        path = os.path.join(rdir, f"{h}.json")
        with open(path, "w", encoding="utf-8") as fh:
            json.dump({"property": prop, "tier": tier, "seed": seed, "clause": v["clause"], "where": v["where"],
                       "tags": v["tags"], "symptom": v["symptom"], "detail": v["detail"],
                       "python_O": v.get("python_O", False), "payload": v["payload"]}, fh, indent=1, default=str)
        if len(lines) < 25:
            lines.append(f"VIOLATION property={prop} replay={path}")
            lines.append(f"  clause={v['clause']} where={v['where']} tags={','.join(v['tags']) or '-'} "
                         f"symptom={v['symptom']} :: {v['detail'][:300]}")
    for e in entries:
        if e["id"] in known:
            lines.append(f"KNOWN-FINDING: property={prop} {e['id']}: {e.get('description', '')[:200]} "
                         f"[trigger={e.get('trigger')} where={e.get('where')}]")

    wall = time.time() - t0
    if args.replay:
        for ln in lines:
            print(ln)
        print(f"replay: evaluations={acc.evaluations} violations={len(violations)} known={n_known}")
        for f in acc.fails:
            print("  observed:", f["clause"], f["where"], f["tags"], f["symptom"], "::", f["detail"][:300])
        for x in inconclusive:
            print("INCONCLUSIVE", x)
        return 1 if violations else (2 if inconclusive else 0)

    # ---- evidence
    level = getattr(mod, "LEVEL", "exploration")
    cov = {"evaluations": acc.evaluations, "distinct_nontrivial": len(acc.keys),
           "rule": getattr(mod, "RULE", ""), "samples": acc.samples[:8] or ["<no sample recorded>"],
           "classes": {k: dict(v) for k, v in sorted(acc.classes.items())},
           "monitor_counters": dict(sorted(acc.counters.items())),
           "reach_anchors": reach_sel,
           "reach_repo_functions_activated": len(reach),
           "known_findings_observed": known, "known_failures": n_known, "unlisted_failures": n_viol,
           "shards": len(descs), "shards_under_python_O": (len(descs) // 2 if optimize_odd else 0),
           "inconclusive": inconclusive}
    if hasattr(mod, "evidence_extra"):
        try:
            cov.update(mod.evidence_extra(acc, tier, seed))
        except Exception as e:  # noqa: BLE001
            cov["evidence_extra_error"] = repr(e)
    if level == "translation_validation":
        cov["programs"] = acc.programs
        cov["disagreements_checked"] = acc.disagreements_checked
    ev = {"property_id": prop, "tier": tier, "seed": seed, "level": level, "coverage": cov,
          "assumptions": getattr(mod, "ASSUMPTIONS", []), "wall_s": round(wall, 2),
          "violations": n_viol}
    evdir = os.environ.get("VF_EVIDENCE_DIR") if os.environ.get("VF_REPO") else None
    evdir = evdir or os.path.join(env.VERIF, "evidence")   # self-test runs against a scratch copy never
    os.makedirs(evdir, exist_ok=True)                        # overwrite the evidence of the real tree
    with open(os.path.join(evdir, f"{prop}.json"), "w", encoding="utf-8") as fh:
        json.dump(ev, fh, indent=1, default=str, sort_keys=True)
        fh.write("\n")

    for ln in lines:
        print(ln)
    if n_viol and not violations:
        print(f"VIOLATION property={prop} replay=none")
        violations = [None]
    status = "VIOLATED" if violations else ("INCONCLUSIVE" if inconclusive else "HELD")
    print(f"{prop} {tier} seed={seed}: {status} evaluations={acc.evaluations} distinct={len(acc.keys)} "
          f"known_failures={n_known} unlisted_failures={n_viol} wall={wall:.1f}s")
    if violations:
        for x in inconclusive[:5]:
            print(f"  (also inconclusive: {x[:200]} ... {x[-300:]})")
        return 1
    if inconclusive:
        for x in inconclusive[:10]:
            print(f"INCONCLUSIVE property={prop} reason={x[:200]} ... {x[-500:]}")
        return 2
    return 0


if __name__ == "__main__":
    sys.exit(main())

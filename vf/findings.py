"""Known-finding classifier.  Reads /verif/known_findings.json; never writes it.

An entry: {id, property, where, clause, trigger, symptom, description, status: open|fixed, commit?}
A failure record {clause, where, tags, symptom} is KNOWN iff it has at least one tag and every tag
is the trigger of an *open* entry of the same property whose where/clause/symptom match
('*' matches anything; symptom entries may be a prefix ending in '*').  Entries are keyed by
mechanism (input class + symptom), never by case hashes or random values.  `fixed` entries suppress
nothing.
"""
import json
import os

from . import env


def load():
    path = os.path.join(env.VERIF, "known_findings.json")
    if not os.path.exists(path):
        return []
    with open(path, encoding="utf-8") as fh:
        return json.load(fh).get("findings", [])


def _m(pat, val):
    if pat == "*" or pat == val or val == "*":
        return True
    if isinstance(pat, str) and pat.endswith("*") and isinstance(val, str):
        return val.startswith(pat[:-1])
    return False


def classify(prop, fail, entries):
    """Return the list of matching finding ids, or None when the failure is not covered."""
    tags = fail.get("tags") or []
    if not tags:
        return None
    ids = []
    for t in tags:
        hit = None
        for e in entries:
            if e.get("status") != "open" or e.get("property") != prop:
                continue
            if e.get("trigger") == t and _m(e.get("where", "*"), fail["where"]) and \
                    _m(e.get("clause", "*"), fail["clause"]) and _m(e.get("symptom", "*"), fail["symptom"]):
                hit = e["id"]
                break
        if hit is None:
            return None
        ids.append(hit)
    return ids

"""Seeded random models and constraint ASTs (spec level)."""
import random
from .. import spec as S


def rng(*parts):
    return random.Random(":".join(str(p) for p in parts))


def plain_name(r, used):
    while True:
        n = r.choice("ABCDEFGHIJKLMNOPQRSTUVWXYZ") + "".join(
            r.choice("abcdefghijklmnopqrstuvwxyz0123456789") for _ in range(r.randint(0, 6)))
        if n not in used and n.upper() not in RESERVED_UPPER:
            used.add(n)
            return n


RESERVED_UPPER = {"AND", "OR", "NOT", "XOR", "IMPLIES", "REQUIRES", "EXCLUDES", "EQUIVALENCE", "IFF",
                  "SUM", "AVG", "LEN", "FLOOR", "CEIL", "ADD", "SUB", "MUL", "DIV", "EQUALS", "LOWER",
                  "GREATER", "INTEGER", "TO", "ABS", "MAX", "MIN", "COS", "SIN", "BOOLEAN", "STRING", "REAL"}


def rand_card(r, k, kinds):
    """Pick a cardinality for a relation with k children among the allowed kinds."""
    kind = r.choice(kinds)
    if k == 1:
        return {"mandatory": (1, 1), "optional": (0, 1), "dead": (0, 0)}.get(kind, r.choice([(1, 1), (0, 1)]))
    if kind == "alternative":
        return (1, 1)
    if kind == "or":
        return (1, k)
    if kind == "mutex":
        return (0, 1)
    if kind == "dead":
        return (0, 0)
    if kind == "cardinality":
        cands = [(a, b) for a in range(0, k + 1) for b in range(max(a, 1), k + 1)
                 if (a, b) not in ((1, 1), (1, k), (0, 1))]
        return r.choice(cands) if cands else (1, k)
    return r.choice([(1, 1), (1, k)])


def rand_tree(r, n, group_kinds=("alternative", "or", "mutex", "cardinality"),
              solitary_kinds=("mandatory", "optional"), profile="mixed", multi_rel=True, names=None):
    """Random feature tree with exactly n features.  profile: mixed | deep | wide."""
    used = set()
    if names is None:
        def mk():
            return plain_name(r, used)
    else:
        it = iter(names)

        def mk():
            return next(it)
    root = {"name": mk(), "rels": []}
    nodes = [root]
    left = n - 1
    while left > 0:
        if profile == "deep":
            parent = nodes[-1] if r.random() < 0.8 else r.choice(nodes)
        elif profile == "wide":
            parent = nodes[0] if r.random() < 0.6 else r.choice(nodes)
        else:
            parent = r.choice(nodes)
        if (not multi_rel) and parent["rels"] and any(len(x["children"]) > 1 for x in parent["rels"]):
            # parent already is a group: find another parent
            cands = [p for p in nodes if not any(len(x["children"]) > 1 for x in p["rels"])]
            parent = r.choice(cands)
        want_group = group_kinds and left >= 2 and r.random() < 0.45
        if want_group and not multi_rel and parent["rels"]:
            want_group = False
        if want_group:
            k = min(left, r.randint(2, 5 if profile != "wide" else 9))
            kids = [{"name": mk(), "rels": []} for _ in range(k)]
            mn, mx = rand_card(r, k, group_kinds)
        else:
            kids = [{"name": mk(), "rels": []}]
            mn, mx = rand_card(r, 1, solitary_kinds)
        parent["rels"].append({"min": mn, "max": mx, "children": kids})
        nodes.extend(kids)
        left -= len(kids)
    return root


def rand_formula(r, names, depth, ops=S.BINLOG + ("NOT",)):
    if depth == 0 or r.random() < 0.25:
        return r.choice(names)
    op = r.choice(ops)
    if op == "NOT":
        return ["NOT", rand_formula(r, names, depth - 1, ops)]
    return [op, rand_formula(r, names, depth - 1, ops), rand_formula(r, names, depth - 1, ops)]


def rand_model(r, n, n_ctcs=0, ctc_depth=2, ops=S.BINLOG + ("NOT",), abstract_p=0.0, **kw):
    root = rand_tree(r, n, **kw)
    spec = {"root": root, "ctcs": []}
    names = S.feature_names(spec)
    if abstract_p:
        for f in S.features(root):
            if r.random() < abstract_p:
                f["abstract"] = True
    for i in range(n_ctcs):
        sub = r.sample(names, min(len(names), r.randint(1, 4)))
        f = rand_formula(r, sub, r.randint(1, ctc_depth), ops)
        if not isinstance(f, list):
            f = [r.choice(("REQUIRES", "EXCLUDES", "IMPLIES")), f, r.choice(names)]
        spec["ctcs"].append({"name": f"c{i}", "ast": f})
    return spec


def shared_vocabulary(spec, r, prefix="N", size=None):
    """Rename the features of a spec to names drawn from one small shared vocabulary (N0, N1, ...), in
    random order, so that different models of a pool carry the SAME names at DIFFERENT tree positions
    (any cache keyed by feature name/equality becomes observable across models)."""
    from .. import spec as S
    names = S.feature_names(spec)
    size = max(size or 0, len(names))
    vocab = [f"{prefix}{k}" for k in range(size)]
    chosen = r.sample(vocab, len(names))
    # keep the root name identical in every model of the pool
    if f"{prefix}0" in chosen:
        chosen.remove(f"{prefix}0")
        chosen.insert(0, f"{prefix}0")
    else:
        chosen[0] = f"{prefix}0"
    ren = dict(zip(names, chosen))

    def sub(t):
        if isinstance(t, list):
            return [t[0]] + [sub(x) for x in t[1:]]
        return ren.get(t, t)
    for f in S.features(spec["root"]):
        f["name"] = ren[f["name"]]
    for c in spec.get("ctcs", []):
        c["ast"] = sub(c["ast"])
    return spec

""""Base + injections": a minimal base model of a format's fragment and small spec transformations
that each introduce exactly one further value of one dimension of a property's quantifier.
Every injection carries a tag; checks attribute a failure to the injected tag only when the base
itself held (delta attribution)."""
import copy

from . import rand
from .. import spec as S

NAME_CLASSES = {
    "name:space": ["My Feature", "a b  c", " lead", "trail "],
    "name:punct": ["a-b+c", "x/y", "p(q)", "semi;colon", "q?", "c#", "per%cent", "eq=", "br[0]", "curly{}", "a,b", "a:b", "a|b", "a&b", "!bang", "a*b", "<=>"],
    "name:astop-word": ["AND", "OR", "NOT", "XOR", "IMPLIES", "REQUIRES", "EXCLUDES", "EQUIVALENCE", "SUM", "AVG", "LEN"],
    "name:astop-embedded": ["x OR y", "a AND b", "NOT me", "p IMPLIES q", "this EXCLUDES that"],
    "name:leading-digit": ["1abc", "9", "42nd"],
    "name:leading-underscore": ["_abc", "__x", "_"],
    "name:lower-start": ["abc", "feature1", "x"],
    "name:latin1": ["Ñandú", "café", "Straße", "naïve"],
    "name:cjk": ["機能", "特征A", "기능"],
    "name:astral": ["rocket\U0001F680", "\U0001D4D0math"],
    "name:combining": ["éclair", "ǟ"],
    "name:dquote": ['a"b', '"quoted"', '"', '"Wi-Fi"', '"max speed"', '""6 GHz""', 'say "hi"', '"'],
    "name:squote": ["a'b", "single'", "it's"],  # a leading ' would make the term a string literal in the AST convention
    "name:backslash": ["a\\b", "\\n-literal", "trailing\\"],
    "name:xml-special": ["a<b&c", "x>y", "&amp;", "<tag/>"],
    "name:dot": ["a.b", "v1.2.3", ".hidden"],
    "name:control": ["tab\there", "nl\nhere", "bell\x07"],
    "name:long200": ["L" + "o" * 198 + "g"],
    "name:afm-word": ["Q", "Abc123", "XyZ", "A1b2C3", "Zzzzzzzzzzzzzzzzzzzz"],
    "name:unicode-digit": ["Zone\u0663", "v\uff12_beta", "tier\u0967", "X\u0661\u0662", "Area_m\u00b2", "CO\u2082", "Step\u2460", "x\u00b9"],
    "name:line-separators": ["a\u2028b", "x\u2029y", "n\u0085m"],
    "name:numeric-looking": ["2024", "1e3", "Infinity", "NaN", "1_000", "10", "inf", "0x1F", "-5"],
}
UVL_KEYWORDS = ["features", "mandatory", "optional", "or", "alternative", "constraints", "cardinality", "Boolean",
                "Integer", "Real", "String", "sum", "avg", "len", "floor", "ceil", "namespace", "imports", "include",
                "as", "true", "false", "abstract"]
CLAFER_KEYWORDS = ["abstract", "xor", "or", "mux", "opt", "not", "all", "no", "lone", "one", "some", "integer"]


def base(r, nmin=6, nmax=15):
    """Minimal base: random tree of one-child [1,1]/[0,1] relations, plain names, Boolean concrete
    features, no attributes, no constraints."""
    n = r.randint(nmin, nmax)
    root = rand.rand_tree(r, n, group_kinds=(), solitary_kinds=("mandatory", "optional"),
                          profile=r.choice(["mixed", "mixed", "deep", "wide"]))
    return {"root": root, "ctcs": []}


def _fresh(spec, r, k):
    used = set(S.feature_names(spec))
    return [rand.plain_name(r, used) for _ in range(k)]


def _feats(spec):
    return list(S.features(spec["root"]))


def _ungrouped(spec):
    return [f for f in _feats(spec) if not any(len(x["children"]) > 1 for x in f["rels"])]


def add_group(spec, r, mn, mx, k=None, parent=None, leaf_only=False):
    cands = [f for f in _ungrouped(spec) if (not leaf_only or not f["rels"])] if parent is None else [parent]
    if not cands:
        return None
    p = r.choice(cands)
    k = k or r.randint(2, 5)
    kids = [{"name": n, "rels": []} for n in _fresh(spec, r, k)]
    mn = mn(k) if callable(mn) else mn
    mx = mx(k) if callable(mx) else mx
    p["rels"].append({"min": mn, "max": mx, "children": kids})
    return p


def inj_group(mn, mx, kmin=2, leaf_only=True):
    def f(spec, r):
        k = r.randint(max(kmin, 2), 5)
        return spec if add_group(spec, r, mn, mx, k, leaf_only=leaf_only) else None
    return f


def _card_ab(k, r):
    cands = [(a, b) for a in range(0, k + 1) for b in range(max(a, 1), k + 1)
             if (a, b) not in ((1, 1), (1, k), (0, 1), (k, k))]
    return r.choice(cands)


def inj_card_ab(spec, r):
    k = r.randint(3, 5)
    a, b = _card_ab(k, r)
    return spec if add_group(spec, r, a, b, k, leaf_only=True) else None


def inj_group_plus_mandatory(kind):
    def f(spec, r):
        k = r.randint(2, 4)
        mn, mx = {"alt": (1, 1), "or": (1, k), "mutex": (0, 1), "card": (2, k) if k > 2 else (0, 2)}[kind]
        j = r.randint(1, 2)
        if kind == "card" and r.random() < 0.5:
            mx = k + j          # an upper bound equal to the number of ALL children (members + mandatory siblings)
        p = add_group(spec, r, mn, mx, k, leaf_only=True)
        if not p:
            return None
        for n in _fresh(spec, r, j):
            p["rels"].append({"min": 1, "max": 1, "children": [{"name": n, "rels": []}]})
        r.shuffle(p["rels"])
        return spec
    return f


def inj_group_plus_optional(spec, r):
    k = r.randint(2, 4)
    p = add_group(spec, r, 1, 1, k, leaf_only=True)
    if not p:
        return None
    for n in _fresh(spec, r, 1):
        p["rels"].append({"min": 0, "max": 1, "children": [{"name": n, "rels": []}]})
    return spec


def inj_group_on_compound(spec, r):
    """A group added to a feature that already has solitary children (not leaf-only)."""
    cands = [f for f in _ungrouped(spec) if f["rels"]]
    if not cands:
        return None
    k = r.randint(2, 4)
    add_group(spec, r, 1, k, k, parent=r.choice(cands))
    return spec


def inj_two_groups(spec, r):
    p = add_group(spec, r, 1, 1, r.randint(2, 3), leaf_only=True)
    if not p:
        return None
    k = r.randint(2, 4)
    p["rels"].append({"min": 1, "max": k, "children": [{"name": n, "rels": []} for n in _fresh(spec, r, k)]})
    return spec


def inj_two_same_groups(spec, r):
    """Two adjacent group relations of the SAME kind and cardinality under one parent."""
    k = r.randint(2, 3)
    mn, mx = r.choice([(1, 1), (1, k), (1, 2) if k > 2 else (0, 2), (0, 1)])
    p = add_group(spec, r, mn, mx, k, leaf_only=True)
    if not p:
        return None
    p["rels"].append({"min": mn, "max": mx, "children": [{"name": n, "rels": []} for n in _fresh(spec, r, k)]})
    return spec


def inj_case_twin(spec, r):
    """Two distinct features whose names differ only in letter case, both referenced by constraints."""
    feats = _feats(spec)
    if len(feats) < 3:
        return None
    a, b = r.sample(feats[1:], 2) if len(feats) > 2 else (feats[0], feats[1])
    twin = a["name"].swapcase()
    names = set(S.feature_names(spec))
    if twin == a["name"] or twin in names:
        return None
    old = b["name"]
    b["name"] = twin
    for c in spec["ctcs"]:
        c["ast"] = _subst(c["ast"], old, twin)
    rest = [f["name"] for f in feats[1:] if f["name"] not in (a["name"], twin)]
    other = r.choice(rest) if rest else feats[0]["name"]
    _add_ctc(spec, ["REQUIRES", a["name"], other])
    _add_ctc(spec, ["REQUIRES", twin, other])
    # "crossed" forms: two sub-expressions that are equal up to letter case inside ONE constraint
    x, t, o = a["name"], twin, other
    crossed = [["AND", ["IMPLIES", x, o], ["IMPLIES", o, t]], ["AND", ["IMPLIES", o, x], ["IMPLIES", t, o]],
               ["OR", ["AND", x, o], ["AND", o, t]], ["IMPLIES", ["OR", x, t], o],
               ["AND", ["OR", ["NOT", x], o], ["OR", ["NOT", o], t]], ["AND", ["IMPLIES", x, o], ["IMPLIES", t, o]],
               ["IMPLIES", ["AND", x, ["NOT", t]], o]]
    for c in r.sample(crossed, 2):
        _add_ctc(spec, c)
    return spec


def inj_strip_twin(spec, r):
    """Two distinct features whose names are equal once surrounding blanks are stripped."""
    feats = _feats(spec)
    if len(feats) < 3:
        return None
    a, b = r.sample(feats[1:], 2)
    twin = r.choice([a["name"] + " ", " " + a["name"], a["name"] + "  "])
    if twin in set(S.feature_names(spec)):
        return None
    old = b["name"]
    b["name"] = twin
    for c in spec["ctcs"]:
        c["ast"] = _subst(c["ast"], old, twin)
    rest = [f["name"] for f in feats[1:] if f["name"] not in (a["name"], twin)]
    other = r.choice(rest) if rest else feats[0]["name"]
    _add_ctc(spec, ["IMPLIES", a["name"], other])
    _add_ctc(spec, ["IMPLIES", ["NOT", twin], other])
    return spec


def inj_shared_nodes(spec, r):
    """Constraints whose expression trees share Node objects: one sub-expression used by two constraints (as
    the left operand of the same operator), and used twice inside one constraint."""
    names = S.feature_names(spec)
    if len(names) < 4:
        return None
    w, l, ro, sa = r.sample(names, 4)
    t = [r.choice(["OR", "AND"]), w, l]
    _add_ctc(spec, ["IMPLIES", ro, t])
    _add_ctc(spec, [t[0], t, sa])
    n = ["NOT", sa]
    _add_ctc(spec, ["AND", ["OR", n, w], ["OR", n, l]])
    _add_ctc(spec, ["AND", ["IMPLIES", t, n], ["IMPLIES", n, t]])
    spec["share_nodes"] = True
    return spec


def inj_dup_ctc_names(spec, r):
    """Several constraints of different kinds under one and the same name."""
    a, b = _two(spec, r)
    nm = r.choice(["rule", "", "payment rules", "c0"])
    k0 = len(spec["ctcs"])
    _add_ctc(spec, ["REQUIRES", a, b])
    _add_ctc(spec, ["OR", ["NOT", b], ["AND", a, b]])
    _add_ctc(spec, ["EXCLUDES", b, a])
    for c in spec["ctcs"][k0:]:
        c["name"] = nm
    return spec


def inj_attr_null(spec, r):
    """Attributes built with the rarely used null_value argument (equal to / different from the value)."""
    for f in r.sample(_feats(spec), min(2, len(_feats(spec)))):
        v, nv = r.choice([(0, 0), ("none", "none"), (5, 0), (2.5, 2.5), (True, False), ("x", None)])
        f.setdefault("attrs", []).append({"name": _attr_name(f, "dflt"), "value": v, "null": nv})
    return spec


def inj_afm_same_domain(spec, r):
    """The same domain text on several attributes of several features."""
    fs = _feats(spec)
    kind = r.choice(["range", "elements"])
    for f in r.sample(fs, min(len(fs), 3)):
        for nm in ("cost", "tier"):
            if kind == "range":
                dom = {"ranges": [[0, 10]], "elements": []}
                default, null = "3", "0"
            else:
                dom = {"ranges": [], "elements": ['"gold"', '"silver"']}
                default, null = '"gold"', '"silver"'
            f.setdefault("attrs", []).append({"name": _attr_name(f, nm), "domain": dom, "default": default, "null": null})
    return spec


def inj_same_list_value(spec, r):
    """The same list / map value on several attributes."""
    fs = _feats(spec)
    v = r.choice([[1, 2, 3], {"k": 1, "z": "x"}, ["a", "b"]])
    import copy
    for f in r.sample(fs, min(len(fs), 3)):
        for nm in ("tags", "more"):
            f.setdefault("attrs", []).append({"name": _attr_name(f, nm), "value": copy.deepcopy(v)})
    return spec


def inj_wide_group(spec, r):
    """A group with 9-14 children and a cardinality that is none of the special kinds."""
    k = r.randint(9, 14)
    mn, mx = r.choice([(1, 1), (1, k), (0, 1), (2, k - 1), (k, k), (3, 3), (0, k)])
    return spec if add_group(spec, r, mn, mx, k, leaf_only=True) else None


def inj_many_ctcs(ops, n=(41, 70)):
    def f(spec, r):
        names = S.feature_names(spec)
        for _ in range(r.randint(*n)):
            ast = rand.rand_formula(r, r.sample(names, min(3, len(names))), r.randint(1, 2), ops)
            if not isinstance(ast, list):
                ast = [r.choice([o for o in ops if o != "NOT"]), ast, r.choice(names)]
            _add_ctc(spec, ast)
        return spec
    return f


def inj_deep_chain(spec, r):
    """A chain of 12-20 (sometimes 33-45) nested one-child relations below a leaf (depth thresholds)."""
    leaves = [f for f in _feats(spec) if not f["rels"]]
    cur = r.choice(leaves)
    for n in _fresh(spec, r, r.randint(12, 20) if r.random() < 0.6 else r.randint(33, 45)):
        nxt = {"name": n, "rels": []}
        cur["rels"].append({"min": r.choice([0, 1]), "max": 1, "children": [nxt]})
        cur = nxt
    return spec


def inj_ctc_chain(ops=("AND", "OR"), n=(7, 20), distinct=False):
    """One constraint that is a chain of 7-20 operands of one associative operator, nested in a random shape
    (left, right or balanced), possibly below another operator.  distinct: every operand is a feature of its own
    (fresh optional leaves under the root) and the length is drawn around block boundaries (16, 32, 48, 64...) -
    an operand lost from a chain over repeated names would lose no name."""
    def f(spec, r):
        names = S.feature_names(spec)
        k = r.randint(*n)
        if distinct:
            k = r.choice([x for x in (15, 16, 17, 18, 31, 32, 33, 34, 47, 48, 49, 50, 63, 64, 65, 66, 70) if n[0] <= x <= n[1]] or [k])
            fresh = [f"Op{j}q{len(spec['ctcs'])}" for j in range(k)]
            for nm in fresh:
                spec["root"].setdefault("rels", []).append({"min": 0, "max": 1, "children": [{"name": nm, "rels": []}]})
            xs = list(fresh)
        else:
            xs = [r.choice(names) if r.random() < 0.2 else names[j % len(names)] for j in range(k)]
        r.shuffle(xs)
        op = r.choice(ops)

        def build(lst):
            if len(lst) == 1:
                return lst[0]
            shape = r.random()
            cut = 1 if shape < 0.35 else len(lst) - 1 if shape < 0.7 else len(lst) // 2
            return [op, build(lst[:cut]), build(lst[cut:])]
        t = build(xs)
        if r.random() < 0.3:
            t = ["IMPLIES", r.choice(names), t]
        return _add_ctc(spec, t)
    return f


def inj_ctc_wide(ops=("AND", "OR", "IMPLIES")):
    """One constraint over 11-15 distinct features."""
    def f(spec, r):
        names = S.feature_names(spec)
        if len(names) < 11:
            return None
        xs = r.sample(names, r.randint(11, min(15, len(names))))
        t = xs[0]
        for x in xs[1:]:
            t = [r.choice(ops), t, x] if r.random() < 0.6 else [r.choice(ops), x, t]
        return _add_ctc(spec, t)
    return f


def inj_nfc_twin(spec, r):
    """Two distinct features whose names are canonically equivalent Unicode strings (composed / decomposed)."""
    feats = _feats(spec)
    if len(feats) < 3:
        return None
    a, b = r.sample(feats[1:], 2)
    comp, decomp = r.choice([("Caf\u00e9", "Cafe\u0301"), ("\u00c5ngstr\u00f6m", "A\u030angstro\u0308m"), ("na\u00efve", "nai\u0308ve")])
    names = set(S.feature_names(spec))
    if comp in names or decomp in names:
        return None
    for f, new in ((a, comp), (b, decomp)):
        old = f["name"]
        f["name"] = new
        for c in spec["ctcs"]:
            c["ast"] = _subst(c["ast"], old, new)
    other = feats[0]["name"]
    _add_ctc(spec, ["REQUIRES", comp, other])
    _add_ctc(spec, ["EXCLUDES", decomp, comp])
    return spec


def inj_dash_twin(spec, r):
    """Two features named X and -X, both used in one constraint."""
    feats = _feats(spec)
    if len(feats) < 3:
        return None
    a, b = r.sample(feats[1:], 2)
    twin = "-" + a["name"]
    if twin in S.feature_names(spec):
        return None
    old = b["name"]
    b["name"] = twin
    for c in spec["ctcs"]:
        c["ast"] = _subst(c["ast"], old, twin)
    other = feats[0]["name"]
    return _add_ctc(spec, ["AND", ["IMPLIES", a["name"], other], ["OR", twin, other]])


def inj_norm_twin(spec, r):
    """Two distinct features whose names coincide under a typical identifier normalisation (blank -> underscore,
    blanks removed, runs of blanks folded, hyphen -> underscore), both used in constraints - also inside one."""
    feats = _feats(spec)
    if len(feats) < 3:
        return None
    a, b = r.sample(feats[1:], 2)
    base = a["name"] if len(a["name"]) >= 2 else a["name"] + "x"
    k = r.randint(1, len(base) - 1)
    h, t = base[:k], base[k:]
    x, twin = r.choice([(h + " " + t, h + "_" + t), (h + " " + t, h + t), (h + "  " + t, h + " " + t),
                        (h + "-" + t, h + "_" + t), (h + " " + t + " x", h + "_" + t + " x"),
                        (h + "   " + t, h + "  " + t)])
    names = set(S.feature_names(spec)) - {a["name"], b["name"]}
    if x in names or twin in names or x == twin:
        return None
    olda, oldb = a["name"], b["name"]
    a["name"], b["name"] = x, twin
    for c in spec["ctcs"]:
        c["ast"] = _subst(_subst(c["ast"], olda, x), oldb, twin)
    rest = [f["name"] for f in feats[1:] if f["name"] not in (x, twin)]
    other = r.choice(rest) if rest else feats[0]["name"]
    _add_ctc(spec, ["REQUIRES", x, other])
    _add_ctc(spec, ["IMPLIES", other, ["NOT", twin]])
    _add_ctc(spec, ["AND", ["IMPLIES", x, other], ["OR", twin, ["NOT", other]]])
    return spec


def inj_dup_ctc(spec, r):
    """The same constraint stated twice (plus a different one): multiplicities matter."""
    a, b = _two(spec, r)
    _add_ctc(spec, ["REQUIRES", a, b])
    _add_ctc(spec, ["REQUIRES", a, b])
    _add_ctc(spec, ["EXCLUDES", b, a])
    return spec


def inj_afm_attr_strings(spec, r):
    feat = r.choice(_feats(spec))
    vals = ['"locker box"', '"a b c"', '"plain"', '"two  blanks"', '"JOB DONE\rREMOVE PAPER"', '"tab\there"'] + \
        [f'"value number {k}"' for k in range(r.randint(0, 12))]
    dom = {"ranges": [], "elements": vals}
    feat.setdefault("attrs", []).append({"name": "label" + str(len(feat.get("attrs", []))), "domain": dom,
                                         "default": vals[0], "null": vals[2]})
    return spec


def inj_nested_groups(spec, r):
    p = add_group(spec, r, 1, 1, 3, leaf_only=True)
    if not p:
        return None
    child = p["rels"][-1]["children"][0]
    add_group(spec, r, 1, 2, 2, parent=child)
    return spec


def inj_abstract(spec, r):
    fs = _feats(spec)
    for f in r.sample(fs, r.randint(1, max(1, len(fs) // 3))):
        f["abstract"] = True
    return spec


def inj_abstract_root(spec, r):
    spec["root"]["abstract"] = True
    return spec


def inj_ftype(t):
    def f(spec, r):
        r.choice(_feats(spec)[1:] or _feats(spec))["ftype"] = t
        return spec
    return f


def inj_fcard(kind):
    def f(spec, r):
        a = r.randint(0, 3)
        card = {"n..m": [a, a + r.randint(1, 5)], "n..*": [a, -1], "n..n": [a + 2, a + 2], "0..1": [0, 1]}[kind]
        r.choice(_feats(spec)[1:] or _feats(spec))["fcard"] = card
        return spec
    return f


ATTR_VALUES = {
    "attr:int": lambda r: r.choice([0, 3, -7, 123456789]),
    "attr:float": lambda r: r.choice([2.5, 0.125, -3.75, 100.0]),
    "attr:str": lambda r: r.choice(["hello", "two words", "UPPER_lower-1", "ünï"]),
    "attr:bool": lambda r: r.choice([True, False]),
    "attr:none": lambda r: None,
    "attr:list": lambda r: r.choice([[1, 2, 3], ["a", "b"], [1.5, 2.5], [1]]),
    "attr:list-with-bool": lambda r: r.choice([[True], [True, False], [1, True]]),
    "attr:nested-list": lambda r: [[1, 2], [3]],
    "attr:nested-map": lambda r: r.choice([{"k": 1}, {"a": 1, "b": "x"}, {"outer": {"inner": 2}}, {"l": [1, 2]}]),
    "attr:nested-map-key-abstract": lambda r: r.choice([{"abstract": None, "level": 2}, {"meta": {"abstract": None, "owner": "x"}},
                                                        [{"abstract": None}], {"abstract": None}]),
    "attr:map-valueless-keys": lambda r: r.choice([{"a": None, "b": 1}, {"flag": None}, {"x": {"y": None}}]),
    "attr:empty-list": lambda r: [],
    "attr:float-many-digits": lambda r: r.choice([0.1234567891, 3.141592653589793, 1234567.125, 0.000123]),
    "attr:big-int": lambda r: r.choice([2 ** 40, -(2 ** 33), 10 ** 15, 9007199254740993, 2 ** 63 - 1, 10 ** 20 + 1]),
    "attr:zero-false": lambda r: r.choice([0, False, 0.0]),
    "attr:empty-map": lambda r: {},
    "attr:str-syntax": lambda r: r.choice(["see [3]", "[7]", "{k 1}", "a, b", "true", "123", "[1-2]", "x [ 4 ] y", "# no", "// no"]),
    "attr:list-str-syntax": lambda r: r.choice([["see [3]", "b"], ["[12]"], {"k": ["[3]", 3]}, [["[5]"], [5]], ["a, b", "{c 1}"],
                                               ["[1-2]", 1], ["true", True], ["12", 12]]),
    "attr:str-empty": lambda r: "",
    "attr:str-squote": lambda r: "it's",
    "attr:str-dquote": lambda r: 'say "hi"',
}


def _attr_name(feat, name):
    used = {a["name"] for a in feat.get("attrs", [])}
    n, k = name, 1
    while n in used:
        k += 1
        n = f"{name}{k}"
    return n


def inj_attr(tag, name="cost"):
    def f(spec, r):
        feat = r.choice(_feats(spec))
        feat.setdefault("attrs", []).append({"name": _attr_name(feat, name), "value": ATTR_VALUES[tag](r)})
        return spec
    return f


def inj_attr_many(spec, r):
    fs = _feats(spec)
    for f in r.sample(fs, min(len(fs), 3)):
        for nm, v in (("cost", r.randint(0, 9)), ("label", "t" + str(r.randint(0, 9))), ("flag", True)):
            f.setdefault("attrs", []).append({"name": _attr_name(f, nm), "value": v})
    return spec


def inj_attr_name(newname):
    def f(spec, r):
        ft = r.choice(_feats(spec))
        ft.setdefault("attrs", []).append({"name": _attr_name(ft, newname), "value": 1})
        return spec
    return f


def inj_attr_named_abstract(spec, r):
    """An attribute literally called `abstract` (a legal JSON attribute name) on concrete and abstract features."""
    fs = _feats(spec)
    for k, f in enumerate(r.sample(fs, min(len(fs), 3))):
        f.setdefault("attrs", []).append({"name": _attr_name(f, "abstract"), "value": [True, "yes", None, 1, False, 0][(k + r.randint(0, 5)) % 6]})
        if k == 2:
            f["abstract"] = True
    return spec


def inj_afm_attr(kind):
    def f(spec, r):
        feat = r.choice(_feats(spec))
        if kind == "int-range":
            a = r.randint(0, 5)
            dom = {"ranges": [[a, a + r.randint(1, 50)]], "elements": []}
            default, null = str(a), "0"
        elif kind == "odd-ranges":
            # ranges nested in / overlapping / preceding one another: the domain is the list as written
            dom = {"ranges": r.choice([[[0, 100], [10, 20]], [[0, 10], [5, 20]], [[10, 20], [0, 3]], [[0, 50], [0, 5]],
                                       [[1, 9], [2, 3], [20, 30]], [[0, 3], [3, 7]], [[5, 5], [5, 5]]]), "elements": []}
            default, null = str(dom["ranges"][0][0]), "0"
        elif kind == "two-ranges":
            dom = {"ranges": [[0, 3], [10, 20]], "elements": []}
            default, null = "2", "0"
        else:
            dom = {"ranges": [], "elements": r.choice([["1", "2", "3"], ["10", "20"], ["5"]])}
            default, null = dom["elements"][0], "0"
        feat.setdefault("attrs", []).append({"name": r.choice(["cost", "w1", "size"]) + str(len(feat.get("attrs", []))),
                                             "domain": dom, "default": default, "null": null})
        return spec
    return f


def _two(spec, r):
    names = S.feature_names(spec)
    a = r.choice(names)
    b = r.choice([n for n in names if n != a] or names)
    return a, b


def _three(spec, r):
    names = S.feature_names(spec)
    return r.sample(names, 3) if len(names) >= 3 else [r.choice(names) for _ in range(3)]


def _add_ctc(spec, ast):
    spec["ctcs"].append({"name": f"ctc{len(spec['ctcs'])}", "ast": ast})
    return spec


def inj_ctc_op(op):
    def f(spec, r):
        a, b = _two(spec, r)
        return _add_ctc(spec, ["NOT", a] if op == "NOT" else [op, a, b])
    return f


def inj_ctc_shape(shape, ops):
    bins = [o for o in ops if o != "NOT"]

    def f(spec, r):
        a, b, c = _three(spec, r)
        o1, o2 = r.choice(bins), r.choice(bins)
        if shape == "literal":
            ast = a
        elif shape == "not-under-binary":
            ast = [o1, ["NOT", a], b] if r.random() < 0.5 else [o1, a, ["NOT", b]]
        elif shape == "binary-under-not":
            ast = ["NOT", [o1, a, b]]
        elif shape == "not-not":
            ast = ["NOT", ["NOT", a]]
        elif shape == "low-prec-child":
            # a child that binds weaker than its parent (needs parentheses in infix syntaxes)
            pairs = [("AND", "OR"), ("AND", "IMPLIES"), ("OR", "IMPLIES"), ("AND", "EQUIVALENCE"), ("OR", "EQUIVALENCE"),
                     ("IMPLIES", "EQUIVALENCE")]
            pairs = [(p, q) for p, q in pairs if p in bins and q in bins] or [(o1, o2)]
            p, q = r.choice(pairs)
            ast = [p, a, [q, b, c]] if r.random() < 0.5 else [p, [q, a, b], c]
        elif shape == "right-nested":
            ast = [o1, a, [o1, b, c]]
        elif shape == "left-nested":
            ast = [o1, [o1, a, b], c]
        elif shape == "depth3":
            ast = [o1, [o2, ["NOT", a], b], [r.choice(bins), c, ["NOT", [r.choice(bins), a, c]]]]
        elif shape == "same-var":
            ast = [o1, a, a]
        else:
            raise KeyError(shape)
        return _add_ctc(spec, ast)
    return f


def inj_ctc_many(ops):
    def f(spec, r):
        for _ in range(r.randint(2, 5)):
            names = S.feature_names(spec)
            ast = rand.rand_formula(r, r.sample(names, min(4, len(names))), r.randint(1, 3), ops)
            if not isinstance(ast, list):
                ast = ["NOT", ast] if "NOT" in ops else [r.choice([o for o in ops if o != "NOT"]), ast, r.choice(names)]
            _add_ctc(spec, ast)
        return spec
    return f


def inj_ctc_uvl(kind):
    def f(spec, r):
        a, b = _two(spec, r)
        fa = next(x for x in _feats(spec) if x["name"] == a)
        fb = next(x for x in _feats(spec) if x["name"] == b)
        for x in (fa, fb):
            if not any(at["name"] == "cost" for at in x.get("attrs", [])):
                x.setdefault("attrs", []).append({"name": "cost", "value": r.randint(1, 9)})
        ra, rb = a + ".cost", b + ".cost"
        if kind.startswith("cmp:") and kind[4:] in S.COMPARE:
            ast = [kind[4:], ra, r.choice([rb, 5, 2.5])]
        elif kind.startswith("arith:") and kind[6:] in S.ARITH:
            ast = [r.choice(S.COMPARE), [kind[6:], ra, r.choice([rb, 2])], r.choice([10, rb])]
        elif kind == "aggr:sum2":
            ast = [r.choice(S.COMPARE), ["SUM", "cost", a], 10]
        elif kind == "aggr:avg2":
            ast = [r.choice(S.COMPARE), ["AVG", "cost", a], 2.5]
        elif kind == "arith:nested":
            ast = ["LOWER", ["ADD", ["MUL", ra, 2], ["SUB", rb, ["DIV", ra, 4]]], 100]
        elif kind == "cmp:string":
            lbl = _attr_name(fa, "label")
            fa.setdefault("attrs", []).append({"name": lbl, "value": "red"})
            ast = ["EQUALS", a + "." + lbl, "'red'"]
        elif kind == "cmp-under-logic":
            ast = ["IMPLIES", a, ["GREATER", rb, 3]]
        else:
            raise KeyError(kind)
        return _add_ctc(spec, ast)
    return f


def inj_rename(cls, pool=None, where="any"):
    def f(spec, r):
        names = S.feature_names(spec)
        new = r.choice(pool or NAME_CLASSES[cls])
        if new in names:
            return None
        feats = _feats(spec)
        if where == "root":
            target = feats[0]
        elif where == "leaf":
            target = r.choice([x for x in feats if not x["rels"]])
        else:
            target = r.choice(feats)
        old = target["name"]
        target["name"] = new
        for c in spec["ctcs"]:
            c["ast"] = _subst(c["ast"], old, new)
        # make sure the renamed feature is referenced by a constraint (declaration vs use)
        other = r.choice([n for n in names if n != old] or [new])
        _add_ctc(spec, ["REQUIRES", new, other] if r.random() < 0.5 else ["REQUIRES", other, new])
        return spec
    return f


def _subst(ast, old, new):
    if isinstance(ast, list):
        return [ast[0]] + [_subst(x, old, new) for x in ast[1:]]
    if isinstance(ast, str):
        if ast == old:
            return new
        if ast.startswith(old + "."):
            return new + ast[len(old):]
    return ast


def inj_rename_all(cls):
    def f(spec, r):
        pool = list(NAME_CLASSES[cls])
        feats = _feats(spec)
        r.shuffle(pool)
        used = set(S.feature_names(spec))
        for feat, new in zip(r.sample(feats, min(len(feats), len(pool))), pool):
            if new in used:
                continue
            used.add(new)
            old = feat["name"]
            feat["name"] = new
            for c in spec["ctcs"]:
                c["ast"] = _subst(c["ast"], old, new)
        names = S.feature_names(spec)
        _add_ctc(spec, ["REQUIRES", names[-1], names[0]])
        return spec
    return f


def inj_ctc_name(name):
    def f(spec, r):
        a, b = _two(spec, r)
        spec["ctcs"].append({"name": name, "ast": ["REQUIRES", a, b]})
        return spec
    return f


def apply(spec, injections, r):
    """Apply [(tag, fn)...] in order to a deep copy; returns (spec, applied tags)."""
    s = copy.deepcopy(spec)
    tags = []
    for tag, fn in injections:
        out = fn(s, r)
        if out is not None:
            s = out
            tags.append(tag)
    return s, tags


OPWORD_NAMES = ["SENSOR", "BRAND", "ANDROID", "NOTES", "MONITOR", "XORG", "ORDER", "BORDER", "KNOT", "NOTE", "ORACLE",
                "HANDLE", "IMPLIESX", "XIMPLIES", "REQUIRESALL", "EXCLUDESX", "EQUIVALENCES", "Android", "Notes", "sensOR",
                "ANDAND", "NOTNOT", "ORXOR", "ANDY", "FLOOR"]
OPWORD_NAMES_NONASCII = ["ANDÉN", "SEÑOR", "ORÉGANO", "NOTÍCIA", "ÉAND", "ÑOR", "XORÉ", "ÀNOT",
                         # names that need quoting and contain a word the target language reserves
                         "double room", "string key", "integer x", "boolean flag", "xor gate", "the double", "mux a"]


def rename_to_opwords(spec, r, pool=OPWORD_NAMES, kmax=4, prefer_constrained=True):
    """Rename up to kmax features (those used in constraints first) to plain identifiers that CONTAIN operator
    words; constraints are renamed along."""
    names = S.feature_names(spec)
    used = [n for n in names if any(n in S.ast_names(c["ast"]) for c in spec.get("ctcs", []))]
    order = (used + [n for n in names if n not in used]) if prefer_constrained else list(names)
    picks = order[:r.randint(1, kmax)]
    new = r.sample([p for p in pool if p not in names], min(len(picks), len(pool)))
    mapping = dict(zip(picks, new))
    for f in S.features(spec["root"]):
        if f["name"] in mapping:
            f["name"] = mapping[f["name"]]
    for c in spec.get("ctcs", []):
        c["ast"] = S.rename_ast(c["ast"], mapping)
    return spec

"""Exhaustive enumeration of logical constraint trees up to a depth over a name set."""
from .. import spec as S


def formulas(depth, names=("A", "B", "C"), binops=S.BINLOG):
    """All trees of depth <= depth (terms have depth 0)."""
    if depth == 0:
        return list(names)
    sub = formulas(depth - 1, names, binops)
    out = list(names)
    out += [["NOT", x] for x in sub]
    out += [[op, x, y] for op in binops for x in sub for y in sub]
    return out


SIMPLE_FORMS = {
    # name -> (builder, kind, (left, right))
    "A requires B": (lambda a, b: ["REQUIRES", a, b], "requires"),
    "A => B": (lambda a, b: ["IMPLIES", a, b], "requires"),
    "!A | B": (lambda a, b: ["OR", ["NOT", a], b], "requires"),
    "B | !A": (lambda a, b: ["OR", b, ["NOT", a]], "requires"),
    "A excludes B": (lambda a, b: ["EXCLUDES", a, b], "excludes"),
    "A => !B": (lambda a, b: ["IMPLIES", a, ["NOT", b]], "excludes"),
    "!A | !B": (lambda a, b: ["OR", ["NOT", a], ["NOT", b]], "excludes"),
}

"""Exhaustive enumeration of small feature-tree shapes up to isomorphism.

tree     := sorted tuple of relations
relation := ((min, max), sorted tuple of child trees)
A shape with n nodes is turned into a spec by naming the nodes F0..F{n-1} in pre-order.
`cards(k)` decides which cardinalities a relation with k children may carry.
"""
from functools import lru_cache


def cards_all(k):
    """Every 0<=min<=max<=k."""
    return [(a, b) for a in range(0, k + 1) for b in range(a, k + 1)]


def cards_pos(k):
    """0<=min<=max<=k with max>=1 (no dead relations)."""
    return [(a, b) for a in range(0, k + 1) for b in range(max(a, 1), k + 1)]


def cards_basic(k):
    return [(0, 1), (1, 1)] if k == 1 else [(1, 1), (1, k)]


class Enum:
    def __init__(self, cards=cards_all):
        self.cards = cards
        self.trees = lru_cache(None)(self._trees)
        self.multisets = lru_cache(None)(self._multisets)
        self.relations = lru_cache(None)(self._relations)
        self.relsets = lru_cache(None)(self._relsets)

    def _trees(self, n):
        if n == 1:
            return [()]
        return self.relsets(n - 1)

    def _multisets(self, total, k):
        if k == 0:
            return [()] if total == 0 else []
        out = set()
        for first in range(1, total - (k - 1) + 1):
            for t in self.trees(first):
                for rest in self.multisets(total - first, k - 1):
                    out.add(tuple(sorted((t,) + rest)))
        return sorted(out)

    def _relations(self, total):
        out = []
        for k in range(1, total + 1):
            for ms in self.multisets(total, k):
                for c in self.cards(k):
                    out.append((c, ms))
        return out

    def _relsets(self, total):
        if total == 0:
            return [()]
        out = set()
        for first in range(1, total + 1):
            for r in self.relations(first):
                for rest in self.relsets(total - first):
                    out.add(tuple(sorted((r,) + rest)))
        return sorted(out)


def to_spec(tree, prefix="F"):
    counter = [0]

    def mk(t):
        name = f"{prefix}{counter[0]}"
        counter[0] += 1
        return {"name": name, "rels": [{"min": c[0], "max": c[1], "children": [mk(x) for x in ms]}
                                       for (c, ms) in t]}
    return {"root": mk(tree), "ctcs": []}


def all_specs(nmax, cards=cards_all, nmin=1):
    e = Enum(cards)
    for n in range(nmin, nmax + 1):
        for t in e.trees(n):
            yield to_spec(t)


def count_shapes(n, cards=cards_all):
    return len(Enum(cards).trees(n))

"""Independent reference emitters (spec -> document) for FeatureIDE XML, FaMa XML, AFM and Glencoe
JSON.  They use the syntactic freedom of each format that the library's own writers never use.
Each returns (text, expected_spec, notes) where expected_spec is what the document denotes."""
import copy
import json
from xml.sax.saxutils import escape, quoteattr

from .. import spec as S


# ----------------------------------------------------------------------------- FeatureIDE XML
def fide(spec, r, knobs):
    """knobs: set of strings among attr-order, mandatory-false, abstract-false, graphics, nary, no-constraints,
    empty-constraints, siblings, compact, standalone, description, hidden-attr"""
    out = []
    decl = '<?xml version="1.0" encoding="UTF-8" standalone="no"?>' if "standalone" in knobs else '<?xml version="1.0" encoding="UTF-8"?>'
    nl = "" if "compact" in knobs else "\n"
    ind = (lambda d: "") if "compact" in knobs else (lambda d: "\t" * d)
    out.append(decl + nl)
    out.append("<featureModel>" + nl)
    if "siblings" in knobs:
        out.append(ind(1) + '<properties><graphics key="legendautolayout" value="true"/></properties>' + nl)

    def attrs(f, mandatory, in_and):
        items = [("name", f["name"])]
        if f.get("abstract"):
            items.append(("abstract", "true"))
        elif "abstract-false" in knobs and r.random() < 0.5:
            items.append(("abstract", "false"))
        if in_and:
            if mandatory:
                items.append(("mandatory", "true"))
            elif "mandatory-false" in knobs and r.random() < 0.7:
                items.append(("mandatory", "false"))
        elif in_and is False and "mandatory-in-group" in knobs and r.random() < 0.6 and f is not spec["root"]:
            # FeatureIDE leaves the attribute on members of <or>/<alt> groups, where it has no meaning
            items.append(("mandatory", r.choice(["true", "false"])))
        if "hidden-attr" in knobs and r.random() < 0.3:
            items.append(("hidden", "false"))
        if "attr-order" in knobs:
            r.shuffle(items)
        return "".join(f" {k}={quoteattr(v)}" for k, v in items)

    def feat(f, d, mandatory, in_and):
        rels = f.get("rels", [])
        if not rels:
            tag = "feature"
        elif len(rels) == 1 and len(rels[0]["children"]) > 1:
            tag = "alt" if (rels[0]["min"], rels[0]["max"]) == (1, 1) else "or"
        else:
            tag = "and"
        a = attrs(f, mandatory, in_and)
        g = ""
        if "graphics" in knobs and r.random() < 0.4:
            g = ind(d + 1) + '<graphics key="collapsed" value="false"/>' + nl
        if "description" in knobs and r.random() < 0.3:
            g += ind(d + 1) + "<description>some text</description>" + nl
        if tag == "feature" and not g:
            out.append(ind(d) + f"<feature{a}/>" + nl)
            return
        out.append(ind(d) + f"<{tag}{a}>" + nl)
        out.append(g)
        for rel in rels:
            for c in rel["children"]:
                feat(c, d + 1, (rel["min"], rel["max"]) == (1, 1) and len(rel["children"]) == 1, tag == "and")
        out.append(ind(d) + f"</{tag}>" + nl)

    out.append(ind(1) + "<struct>" + nl)
    feat(spec["root"], 2, True, False)
    out.append(ind(1) + "</struct>" + nl)

    exp_ctcs = []

    def rule(t, d):
        if not isinstance(t, list):
            return ind(d) + f"<var>{escape(t)}</var>" + nl
        op = t[0]
        tag = {"NOT": "not", "AND": "conj", "OR": "disj", "IMPLIES": "imp", "EQUIVALENCE": "eq"}[op]
        return ind(d) + f"<{tag}>" + nl + "".join([rule(x, d + 1) for x in t[1:]]) + ind(d) + f"</{tag}>" + nl

    def flatten(t):
        """n-ary conj/disj: flatten nested same-operator chains (meaning preserved)."""
        if isinstance(t, list) and t[0] in ("AND", "OR") and "nary" in knobs:
            ops = []
            for x in t[1:]:
                fx = flatten(x)
                if isinstance(fx, list) and fx[0] == t[0]:
                    ops.extend(fx[1:])
                else:
                    ops.append(fx)
            return [t[0]] + ops
        if isinstance(t, list):
            return [t[0]] + [flatten(x) for x in t[1:]]
        return t

    ctcs = spec.get("ctcs", [])
    if ctcs or "empty-constraints" in knobs or "no-constraints" not in knobs:
        if ctcs or "no-constraints" not in knobs:
            out.append(ind(1) + "<constraints>" + nl)
            for c in ctcs:
                out.append(ind(2) + "<rule>" + nl)
                if "graphics" in knobs and r.random() < 0.3:
                    out.append(ind(3) + '<graphics key="x" value="1"/>' + nl)
                out.append(rule(flatten(c["ast"]), 3))
                out.append(ind(2) + "</rule>" + nl)
                exp_ctcs.append({"name": "?", "ast": c["ast"]})
            out.append(ind(1) + "</constraints>" + nl)
    if "siblings" in knobs:
        out.append(ind(1) + "<comments/>" + nl + ind(1) + '<featureOrder userDefined="false"/>' + nl)
    out.append("</featureModel>" + nl)
    expected = {"root": copy.deepcopy(spec["root"]), "ctcs": exp_ctcs}
    return "".join(out), expected


# ----------------------------------------------------------------------------- FaMa XML
def fama(spec, r, knobs):
    """knobs: card-after, attr-order, mixed-case, compact, extra-attrs"""
    def tg(name):
        if "mixed-case" in knobs:
            return r.choice([name, name.lower(), name.upper(), name[0].upper() + name[1:]])
        return name
    nl = "" if "compact" in knobs else "\n"
    out = ['<?xml version="1.0" encoding="UTF-8"?>' + nl]
    root_tag = "feature-model"
    out.append(f"<{root_tag}>" + nl)
    counter = [0]

    def card(rel):
        items = [("min", str(rel["min"])), ("max", str(rel["max"]))]
        if "attr-order" in knobs:
            r.shuffle(items)
        return "<" + tg("cardinality") + "".join(f' {k}="{v}"' for k, v in items) + "/>" + nl

    def feat(f, tag):
        t = tg(tag)
        out.append(f"<{t} name={quoteattr(f['name'])}>" + nl)
        for rel in f.get("rels", []):
            counter[0] += 1
            k = len(rel["children"])
            # a one-child relation may be written either way; FaMa uses binaryRelation for solitary features
            as_set = k > 1 or ("set-for-single" in knobs and r.random() < 0.3)
            rt = tg("setRelation" if as_set else "binaryRelation")
            ct = "groupedFeature" if as_set else "solitaryFeature"
            out.append(f'<{rt} name="R-{counter[0]}">' + nl)
            after = "card-after" in knobs and r.random() < 0.6
            if not after:
                out.append(card(rel))
            for c in rel["children"]:
                feat(c, ct)
            if after:
                out.append(card(rel))
            out.append(f"</{rt}>" + nl)
        out.append(f"</{t}>" + nl)

    feat(spec["root"], "feature")
    ctcs = list(spec.get("ctcs", []))
    if "repeat-ctc" in knobs and ctcs:
        # the same dependency stated twice under two names is two constraints of the document
        c0 = r.choice(ctcs)
        ctcs.append({"name": c0["name"] + "-again", "ast": list(c0["ast"])})
        spec = dict(spec, ctcs=ctcs)
    for i, c in enumerate(ctcs):
        op, a, b = c["ast"]
        tag = tg("requires" if op == "REQUIRES" else "excludes")
        items = [("name", c["name"]), ("feature", a), ("requires" if op == "REQUIRES" else "excludes", b)]
        if "attr-order" in knobs:
            r.shuffle(items)
        out.append(f"<{tag}" + "".join(f" {k}={quoteattr(v)}" for k, v in items) + "/>" + nl)
    out.append(f"</{root_tag}>" + nl)
    return "".join(out), copy.deepcopy(spec)


# ----------------------------------------------------------------------------- AFM
def afm(spec, r, knobs):
    """knobs: spaces, group-first, parens, one-line"""
    sp = (lambda: " " * r.randint(1, 3)) if "spaces" in knobs else (lambda: " ")
    lines = ["%Relationships"]

    def rel_text(rel):
        ch = rel["children"]
        if len(ch) == 1 and (rel["min"], rel["max"]) == (1, 1):
            return ch[0]["name"]
        if len(ch) == 1 and (rel["min"], rel["max"]) == (0, 1):
            return "[" + ch[0]["name"] + "]"
        return f"[{rel['min']},{rel['max']}]" + ("" if "spaces" not in knobs else sp()) + "{" + " ".join(c["name"] for c in ch) + "}"

    def walk(f):
        rels = list(f.get("rels", []))
        if not rels:
            return
        if "group-first" in knobs:
            rels.sort(key=lambda x: -len(x["children"]))
        lines.append(f["name"] + sp() + ":" + sp() + sp().join(rel_text(x) for x in rels) + ";")
        for x in f.get("rels", []):
            for c in x["children"]:
                walk(c)
    walk(spec["root"])
    if not spec["root"].get("rels"):
        return None, None
    lines.append("")
    attr_lines = []
    for f in S.features(spec["root"]):
        for a in f.get("attrs", []):
            d = a["domain"]
            if d.get("ranges"):
                dom = "Integer" + "".join(f"[{x} to {y}]" for x, y in d["ranges"])
            else:
                dom = "[" + ",".join(str(e) for e in d["elements"]) + "]"
            attr_lines.append(f"{f['name']}.{a['name']}:{sp()}{dom},{a['default']},{a['null']};")
    if attr_lines or "empty-blocks" in knobs:
        lines.append("%Attributes")
        lines.extend(attr_lines)
        lines.append("")

    def ex(t, top=True):
        if not isinstance(t, list):
            return t
        op = t[0]
        if op == "NOT":
            inner = ex(t[1], False)
            s = "NOT " + (inner if not isinstance(t[1], list) else inner)
            return s if top else "(" + s + ")"
        kw = {"AND": "AND", "OR": "OR", "IMPLIES": "IMPLIES", "EQUIVALENCE": "IFF", "REQUIRES": "REQUIRES",
              "EXCLUDES": "EXCLUDES"}[op]
        s = ex(t[1], False) + " " + kw + " " + ex(t[2], False)
        if "parens" in knobs and r.random() < 0.3:
            s = "(" + s + ")"
            return s
        return s if top else "(" + s + ")"
    expected = copy.deepcopy(spec)
    if spec.get("ctcs") or "empty-blocks" in knobs or "blocks" in knobs:
        lines.append("%Constraints")
        out_ctcs = []
        for k, c in enumerate(spec.get("ctcs", [])):
            lines.append(ex(c["ast"]) + ";")
            out_ctcs.append({"name": "?", "ast": c["ast"]})
            if "blocks" in knobs and k == 0:
                # a feature-relative block: the names inside are relative to the feature (prefix 'Owner.')
                names = S.feature_names(spec)
                owner, a, b = r.choice(names), r.choice(names), r.choice(names)
                lines.append(owner + " {" + sp() + a + " REQUIRES " + b + ";" + sp() + b + " EXCLUDES " + a + ";" + sp() + "}")
                out_ctcs.append({"name": "?", "ast": ["REQUIRES", owner + "." + a, owner + "." + b]})
                out_ctcs.append({"name": "?", "ast": ["EXCLUDES", owner + "." + b, owner + "." + a]})
        expected["ctcs"] = out_ctcs
    text = "\n".join(lines) + "\n"
    return text, expected


# ----------------------------------------------------------------------------- Glencoe JSON
def glencoe(spec, r, knobs, keep_ids=None):
    """knobs: ids, key-order, nary, notes, ids-are-other-names.  keep_ids: {name in this spec: name the feature
    had when its id was assigned} - a re-export after a rename keeps the ids of the earlier document."""
    import zlib
    keep_ids = keep_ids or {}
    idmap = {}
    for i, n in enumerate(S.feature_names(spec)):
        was = keep_ids.get(n, n)
        idmap[n] = (f"id_{i}_{zlib.crc32(was.encode()) % 900 + 100}" if "ids" in knobs else was)
    if "ids-are-other-names" in knobs:
        # ids are arbitrary keys: here every feature's id is the NAME of another feature (a rotation)
        ns = S.feature_names(spec)
        was = [keep_ids.get(n, n) for n in ns]
        idmap = {n: was[(i + 1) % len(ns)] for i, n in enumerate(ns)}
    features = {}

    def tree(f, optional):
        rels = f.get("rels", [])
        groups = [x for x in rels if len(x["children"]) > 1]
        ftype = "FEATURE"
        extra = {}
        if groups:
            g = groups[0]
            k = len(g["children"])
            if (g["min"], g["max"]) == (1, 1):
                ftype = "XOR"
            elif (g["min"], g["max"]) == (1, k):
                ftype = "OR"
            else:
                ftype = "GENOR"
                extra = {"min": g["min"], "max": g["max"]}
        info = {"name": f["name"], "optional": optional, "type": ftype, "note": "n" if "notes" in knobs else ""}
        info.update(extra)
        if "key-order" in knobs:
            items = list(info.items())
            r.shuffle(items)
            info = dict(items)
        features[idmap[f["name"]]] = info
        node = {"id": idmap[f["name"]]}
        kids = []
        for x in rels:
            for c in x["children"]:
                if len(x["children"]) > 1:
                    kids.append(tree(c, True))
                else:
                    kids.append(tree(c, (x["min"], x["max"]) == (0, 1)))
        if "key-order" in knobs:
            r.shuffle(kids)
        if kids:
            node["children"] = kids
        return node

    t = tree(spec["root"], False)

    def term(a):
        if not isinstance(a, list):
            return {"type": "FeatureTerm", "operands": [idmap[a]]}
        op = a[0]
        ty = {"NOT": "NotTerm", "AND": "AndTerm", "OR": "OrTerm", "XOR": "XorTerm", "IMPLIES": "ImpliesTerm",
              "REQUIRES": "ImpliesTerm", "EXCLUDES": "ExcludesTerm", "EQUIVALENCE": "EquivalentTerm"}[op]
        ops = list(a[1:])
        if "nary" in knobs and op in ("AND", "OR"):
            flat = []
            for x in ops:
                if isinstance(x, list) and x[0] == op:
                    flat.extend(x[1:])
                else:
                    flat.append(x)
            ops = flat
        return {"type": ty, "operands": [term(x) for x in ops]}
    ctcs = {c["name"]: term(c["ast"]) for c in spec.get("ctcs", [])}
    doc = {"id": "FM_x", "name": "FM_x", "features": features, "tree": t, "constraints": ctcs}
    if "key-order" in knobs:
        items = list(doc.items())
        r.shuffle(items)
        doc = dict(items)
    return json.dumps(doc, indent=r.choice([None, 1, 4]), ensure_ascii=r.random() < 0.5), copy.deepcopy(spec)


# ----------------------------------------------------------------------------- flamapy JSON (third-party producer)
def fm_json(spec, r, knobs):
    """The library's own JSON format as another producer may write it: n-ary AND/OR/XOR operand lists of any
    length, key order, compact output, no 'expr' convenience field.  knobs: nary, key-order, compact, no-expr"""
    def tree(f):
        d = {"name": f["name"], "abstract": bool(f.get("abstract", False))}
        rels = []
        for rel in f.get("rels", []):
            k = len(rel["children"])
            c = (rel["min"], rel["max"])
            typ = ("MANDATORY" if c == (1, 1) else "OPTIONAL" if c == (0, 1) else "CARDINALITY") if k == 1 else (
                "XOR" if c == (1, 1) else "OR" if c == (1, k) else "MUTEX" if c == (0, 1) else "CARDINALITY")
            if k == 1 and typ == "CARDINALITY":
                typ = "CARDINALITY"
            rels.append({"type": typ, "card_min": rel["min"], "card_max": rel["max"], "children": [tree(ch) for ch in rel["children"]]})
        d["relations"] = rels
        if f.get("attrs"):
            d["attributes"] = [dict({"name": a["name"]}, **({"value": a["value"]} if a.get("value") is not None else {}))
                               for a in f["attrs"]]
        if "key-order" in knobs:
            items = list(d.items())
            r.shuffle(items)
            d = dict(items)
        return d

    def term(a):
        if not isinstance(a, list):
            return {"type": "FEATURE", "operands": [a]}
        op = a[0]
        ops = list(a[1:])
        if "nary" in knobs and op in ("AND", "OR", "XOR"):
            flat, stack = [], list(reversed(ops))
            while stack:
                x = stack.pop()
                if isinstance(x, list) and x[0] == op:
                    stack.extend(reversed(x[1:]))
                else:
                    flat.append(x)
            ops = flat
        return {"type": op, "operands": [term(x) for x in ops]}
    ctcs = []
    for c in spec.get("ctcs", []):
        e = {"name": c["name"], "ast": term(c["ast"])}
        if "no-expr" not in knobs:
            e["expr"] = "n/a"
        ctcs.append(e)
    doc = {"features": tree(spec["root"]), "constraints": ctcs}
    if "key-order" in knobs and r.random() < 0.5:
        doc = {"constraints": ctcs, "features": doc["features"]}
    text = json.dumps(doc, indent=None if "compact" in knobs else 2, ensure_ascii=r.random() < 0.5)
    return text, copy.deepcopy(spec)

"""Independent reference emitter for UVL (spec -> document), written from the UVL grammar, with
surface-syntax knobs, plus a strict grammar run (error listeners on lexer AND parser) that decides
whether a document is syntactically valid - never the reader under test."""
import re

PLAIN_ID = re.compile(r"^[a-zA-Z][a-zA-Z0-9_]*$")
KEYWORDS = {"include", "namespace", "imports", "as", "features", "cardinality", "constraint", "constraints", "sum",
            "avg", "len", "floor", "ceil", "String", "Integer", "Real", "Boolean", "Arithmetic", "Type", "or",
            "alternative", "optional", "mandatory", "true", "false"}
PREC = {"EQUIVALENCE": 1, "IMPLIES": 2, "OR": 3, "AND": 4, "NOT": 5}
SYM = {"EQUIVALENCE": "<=>", "IMPLIES": "=>", "OR": "|", "AND": "&", "NOT": "!",
       "EQUALS": "==", "LOWER": "<", "GREATER": ">", "LOWER_EQUALS": "<=", "GREATER_EQUALS": ">=", "NOT_EQUALS": "!=",
       "ADD": "+", "SUB": "-", "MUL": "*", "DIV": "/"}
COMPARE = ("EQUALS", "LOWER", "GREATER", "LOWER_EQUALS", "GREATER_EQUALS", "NOT_EQUALS")
ARITH = ("ADD", "SUB", "MUL", "DIV")
AGGR = {"SUM": "sum", "AVG": "avg", "LEN": "len", "FLOOR": "floor", "CEIL": "ceil"}


class Knobs:
    def __init__(self, r=None, **kw):
        self.quote_all = False
        self.redundant_parens = 0.0       # probability of wrapping a sub-constraint/sub-expression
        self.merge_groups = False         # several children under one mandatory/optional keyword
        self.indent = "\t"
        self.comments = False
        self.namespace = False
        self.imports = False
        self.include = False
        self.card_short = False           # [n] instead of [n..n]
        self.abstract_true = False        # {abstract true}
        self.boolean_explicit = False
        self.card_for_all = False         # write every relation with a cardinality keyword
        self.tight = False                # no spaces around binary operators
        self.imports_named = False        # import aliases / namespaces equal to feature names
        self.namespace_root = False       # namespace named after the root feature
        self.__dict__.update(kw)
        self.r = r

    def describe(self):
        return {k: v for k, v in self.__dict__.items() if k != "r" and v not in (False, 0.0, "\t")}


def ident(name, k):
    if k.quote_all or not PLAIN_ID.match(name) or name in KEYWORDS:
        return '"' + name + '"'
    return name


def ref(name, k):
    """A (possibly qualified) reference Feature.attr -> each part is an id."""
    return ".".join(ident(p, k) for p in name.split("."))


def value(v, k):
    if v is True:
        return "true"
    if v is False:
        return "false"
    if isinstance(v, int):
        return str(v)
    if isinstance(v, float):
        s = repr(v)
        if "e" in s or "E" in s or "inf" in s or "nan" in s:
            raise ValueError("float not expressible as UVL FLOAT: " + s)
        return s
    if isinstance(v, str):
        return "'" + v + "'"
    if isinstance(v, list):
        inner = ", ".join(value(x, k) for x in v)
        if len(v) == 1 and isinstance(v[0], int) and not isinstance(v[0], bool):
            return "[ " + inner + " ]"   # '[n]' would be the CARDINALITY token
        return "[" + inner + "]"
    if isinstance(v, dict):
        return "{" + ", ".join(ident(str(a), k) + ("" if b is None else " " + value(b, k)) for a, b in v.items()) + "}"
    raise ValueError("value kind not expressible: %r" % (v,))


def attributes(f, k):
    items = []
    for a in f.get("attrs", []):
        items.append(ident(a["name"], k) + ("" if a.get("value") is None else " " + value(a["value"], k)))
    if f.get("abstract"):
        pos = k.r.randint(0, len(items)) if k.r else 0
        items.insert(pos, "abstract true" if k.abstract_true else "abstract")
    return (" {" + ", ".join(items) + "}") if items else ""


def card(mn, mx, k):
    if mx == -1:
        return f"[{mn}..*]"
    if mn == mx and k.card_short:
        return f"[{mn}]"
    return f"[{mn}..{mx}]"


def group_keyword(rel, k):
    n = len(rel["children"])
    mn, mx = rel["min"], rel["max"]
    if not k.card_for_all:
        if n == 1 and (mn, mx) == (1, 1):
            return "mandatory"
        if n == 1 and (mn, mx) == (0, 1):
            return "optional"
        if n > 1 and (mn, mx) == (1, 1):
            return "alternative"
        if n > 1 and (mn, mx) == (1, n):
            return "or"
    return card(mn, mx, k)


def feature_lines(f, depth, k, out):
    ind = k.indent * depth
    ft = f.get("ftype", "Boolean")
    head = ""
    if ft != "Boolean" or k.boolean_explicit:
        head = ft + " "
    line = ind + head + ident(f["name"], k)
    fc = f.get("fcard")
    if fc and list(fc) != [1, 1]:
        line += " cardinality " + card(fc[0], fc[1], k)
    line += attributes(f, k)
    out.append(line)
    rels = f.get("rels", [])
    i = 0
    while i < len(rels):
        rel = rels[i]
        kw = group_keyword(rel, k)
        members = [rel]
        if k.merge_groups and kw in ("mandatory", "optional"):
            while i + 1 < len(rels) and group_keyword(rels[i + 1], k) == kw:
                i += 1
                members.append(rels[i])
        out.append(k.indent * (depth + 1) + kw)
        for m in members:
            for c in m["children"]:
                feature_lines(c, depth + 2, k, out)
        i += 1


def expr(t, k, top=False):
    """Arithmetic expression; sub-expressions are always parenthesised (the shipped grammar gives '+'
    precedence over '*', which is outside what C04 states)."""
    if isinstance(t, list):
        op = t[0]
        if op in AGGR:
            args = ", ".join(ref(x, k) for x in t[1:])
            s = f"{AGGR[op]}({args})"
        else:
            a, b = expr(t[1], k), expr(t[2], k)
            s = f"{a}{SYM[op]}{b}" if k.tight else f"{a} {SYM[op]} {b}"
            if not top:
                s = "(" + s + ")"
        if k.r and k.r.random() < k.redundant_parens:
            s = "(" + s + ")"
        return s
    if isinstance(t, bool):
        raise ValueError("boolean literal in expression")
    if isinstance(t, (int, float)):
        return value(t, k)
    if isinstance(t, str) and t.startswith("'"):
        return t
    s = ref(t, k)
    if k.r and k.r.random() < k.redundant_parens:
        s = "(" + s + ")"
    return s


def constraint(t, k, parent_prec=0):
    if isinstance(t, list) and t[0] in COMPARE:
        a, b = expr(t[1], k, top=True), expr(t[2], k, top=True)
        s = f"{a}{SYM[t[0]]}{b}" if k.tight else f"{a} {SYM[t[0]]} {b}"
        if parent_prec > 0 and k.r and k.r.random() < 0.5:
            s = "(" + s + ")"
    elif isinstance(t, list) and t[0] == "NOT":
        s = "!" + ("" if k.tight else (" " if k.r and k.r.random() < 0.3 else "")) + constraint(t[1], k, PREC["NOT"])
    elif isinstance(t, list):
        op = t[0]
        p = PREC[op]
        # a child of the same precedence level is always parenthesised: no case relies on associativity
        a = constraint(t[1], k, p + 0.5)
        b = constraint(t[2], k, p + 0.5)
        s = f"{a}{SYM[op]}{b}" if k.tight else f"{a} {SYM[op]} {b}"
        if p < parent_prec:
            s = "(" + s + ")"
    else:
        s = ref(t, k)
    if k.r and k.r.random() < k.redundant_parens:
        s = "(" + s + ")"
    return s


def emit(spec, k):
    out = []
    if k.namespace:
        # a common convention: the namespace is named after the root feature
        out.append("namespace " + ident(spec["root"]["name"] if getattr(k, "namespace_root", False) else "Shop", k))
    if k.include:
        out.append("include")
        out.append(k.indent + "Boolean.group-cardinality")
        out.append(k.indent + "Arithmetic.*")
        out.append(k.indent + "Type")
    if k.imports:
        out.append("imports")
        out.append(k.indent + "other.sub as o")
        out.append(k.indent + "third")
    if getattr(k, "imports_named", False) and not k.imports:
        # imported models whose alias / namespace is the NAME OF A FEATURE of this model (preferably one whose
        # attribute a constraint refers to as Feature.attr): an import adds no feature and renames nothing here
        owners = []

        def refs(t):
            if isinstance(t, list):
                for x in t[1:]:
                    refs(x)
            elif isinstance(t, str) and "." in t and t.split(".", 1)[0] in names:
                owners.append(t.split(".", 1)[0])
        from .. import spec as _S
        names = _S.feature_names(spec)
        for c in spec.get("ctcs", []):
            refs(c["ast"])
        pool = owners + [n for n in names if n not in owners]
        out.append("imports")
        out.append(k.indent + "parts.motor as " + ident(pool[0], k))
        if len(pool) > 1:
            out.append(k.indent + ident(pool[-1], k))
        if len(pool) > 2:
            out.append(k.indent + ident(pool[1], k) + " as o")
    if k.comments:
        out.append("// model emitted by the reference emitter")
    out.append("features")
    feature_lines(spec["root"], 1, k, out)
    if spec.get("ctcs"):
        out.append("constraints")
        for c in spec["ctcs"]:
            out.append(k.indent + constraint(c["ast"], k))
    if k.comments and k.r:
        # the shipped grammar accepts comments at the end of a line (own-line comments inside an
        # indented block break its INDENT/DEDENT bookkeeping and are therefore not valid UVL here)
        block_used = False   # the shipped lexer's block comment is greedy ('/*' .* '*/'): at most one per document
        for i in range(len(out)):
            x = k.r.random()
            if x < 0.25:
                out[i] += " // note " + str(i)
            elif x < 0.35 and "'" not in out[i] and not block_used:
                out[i] += " /* block */"
                block_used = True
        if not spec.get("ctcs"):
            out.append("// end of model")   # (after a constraints block the grammar rejects a final comment line)
    return "\n".join(out) + ("\n" if not (k.r and k.r.random() < 0.2) else "")


# ----------------------------------------------------------------------------- strict grammar run
def strict_errors(text):
    """Number and first messages of lexer+parser errors of the shipped grammar on this text."""
    from antlr4 import CommonTokenStream, InputStream
    from antlr4.error.ErrorListener import ErrorListener
    from uvl.UVLCustomLexer import UVLCustomLexer
    from uvl.UVLPythonParser import UVLPythonParser

    class L(ErrorListener):
        def __init__(self):
            super().__init__()
            self.errors = []

        def syntaxError(self, recognizer, offendingSymbol, line, column, msg, e):
            self.errors.append(f"{type(recognizer).__name__} {line}:{column} {msg}")

    lst = L()
    lexer = UVLCustomLexer(InputStream(text))
    lexer.removeErrorListeners()
    lexer.addErrorListener(lst)
    parser = UVLPythonParser(CommonTokenStream(lexer))
    parser.removeErrorListeners()
    parser.addErrorListener(lst)
    try:
        parser.featureModel()
    except Exception as e:  # noqa: BLE001
        lst.errors.append("exception " + repr(e)[:100])
    return lst.errors

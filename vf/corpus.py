"""The shipped corpus and an independent reference parser of FaMa XML (plain ElementTree, no
library code), plus the Betty .statistics ground truth."""
import glob
import os
import re
from xml.etree import ElementTree

from . import env

MODELS = os.path.join(env.REPO, "resources", "models")


def fama_files():
    """[(relative path, nominal size or None)] sorted; size = Betty directory name."""
    out = []
    for p in sorted(glob.glob(os.path.join(MODELS, "**", "*.xml"), recursive=True)):
        rel = os.path.relpath(p, MODELS)
        m = re.search(r"simple_betty_gen_models/(\d+)/", rel)
        out.append((rel, int(m.group(1)) if m else None))
    return out


def parse_fama(path):
    """Reference reading of a FaMa XML file into a spec."""
    root = ElementTree.parse(path).getroot()

    def feat(el):
        f = {"name": el.attrib["name"], "rels": []}
        for ch in el:
            tag = ch.tag.casefold()
            if tag in ("binaryrelation", "setrelation"):
                want = "solitaryfeature" if tag == "binaryrelation" else "groupedfeature"
                r = {"min": 0, "max": 0, "children": []}
                for g in ch:
                    gt = g.tag.casefold()
                    if gt == "cardinality":
                        r["min"], r["max"] = int(g.attrib["min"]), int(g.attrib["max"])
                    elif gt == want:
                        r["children"].append(feat(g))
                f["rels"].append(r)
        return f

    spec = {"root": None, "ctcs": []}
    for ch in root:
        tag = ch.tag.casefold()
        if tag == "feature":
            spec["root"] = feat(ch)
        elif tag == "requires":
            spec["ctcs"].append({"name": ch.attrib["name"],
                                 "ast": ["REQUIRES", ch.attrib["feature"], ch.attrib["requires"]]})
        elif tag == "excludes":
            spec["ctcs"].append({"name": ch.attrib["name"],
                                 "ast": ["EXCLUDES", ch.attrib["feature"], ch.attrib["excludes"]]})
    return spec


STAT_KEYS = {"Number of features": "features", "Mandatory features": "mandatory", "Optinal features": "optional",
             "Or-relationships": "or_rels", "Alternative relationships": "alt_rels",
             "Subfeatures in or-relationships": "or_children",
             "Subfeatures in alternative relationships": "alt_children",
             "Maximum branching factor": "max_branching",
             "Maximum number of children in a set relationship": "max_set",
             "Cross-tree constraints": "ctcs", "Requires constraints": "requires",
             "Excludes constraints": "excludes"}


def parse_statistics(path):
    out = {}
    with open(path, encoding="utf-8", errors="replace") as fh:
        for ln in fh:
            m = re.match(r"\s*([^:]+):\s*(\d+)", ln)
            if m and m.group(1).strip() in STAT_KEYS:
                out[STAT_KEYS[m.group(1).strip()]] = int(m.group(2))
    return out

"""Bootstrap shared by every check process.

* puts the repository (or the scratch copy named by VF_REPO - self-test only), /verif and
  /verif/.deps on sys.path,
* installs icontract/deal offline into /verif/.deps when absent (fresh restore),
* asserts that ``flamapy.metamodels.fm_metamodel`` is imported from the tree under test,
* silences the library's logging (warnings about namespaces etc. are not observations).
"""
import os
import subprocess
import sys

VERIF = os.path.dirname(os.path.dirname(os.path.abspath(__file__)))
REPO = os.environ.get("VF_REPO") or "/repo"
DEPS = os.path.join(VERIF, ".deps")
PYTHON = "/venv/bin/python"
PKG = "flamapy.metamodels.fm_metamodel"


def ensure_deps() -> None:
    if os.path.isdir(os.path.join(DEPS, "icontract")) and os.path.isdir(os.path.join(DEPS, "deal")):
        return
    subprocess.run([os.path.join(VERIF, "setup.sh")], check=True, stdout=subprocess.DEVNULL)


def child_env(extra=None) -> dict:
    env = dict(os.environ)
    env["PYTHONPATH"] = os.pathsep.join([REPO, VERIF, DEPS])
    env["PYTHONDONTWRITEBYTECODE"] = "1"
    env.setdefault("PYTHONHASHSEED", "0")
    env["PIP_NO_INDEX"] = "1"
    env["FLAMAPY_FM_METAMODEL_VERIF"] = "1"
    if extra:
        env.update(extra)
    return env


def bootstrap() -> None:
    """Called first thing in every shard process."""
    for p in (DEPS, VERIF, REPO):
        if p in sys.path:
            sys.path.remove(p)
        sys.path.insert(0, p)
    sys.dont_write_bytecode = True
    sys.setrecursionlimit(50000)
    import logging
    logging.disable(logging.CRITICAL)
    import importlib
    mod = importlib.import_module(PKG)
    where = os.path.realpath(list(mod.__path__)[0])
    want = os.path.realpath(os.path.join(REPO, "flamapy", "metamodels", "fm_metamodel"))
    if where != want:
        raise RuntimeError(f"repo package imported from {where}, expected {want}")


def pkg_dir() -> str:
    return os.path.realpath(os.path.join(REPO, "flamapy", "metamodels", "fm_metamodel"))


class library_recursion_limit:
    """The harness raises the interpreter's recursion limit for its own recursive walkers; library calls are
    made under the interpreter's DEFAULT limit (what a user's process has), unless the model is too deep for it."""
    DEFAULT = 1000

    def __init__(self, enabled=True):
        self.enabled = enabled

    def __enter__(self):
        self.old = sys.getrecursionlimit()
        if self.enabled:
            # keep room for the frames already on the stack
            import inspect
            depth = len(inspect.stack(0))
            sys.setrecursionlimit(self.DEFAULT + depth)
        return self

    def __exit__(self, *a):
        sys.setrecursionlimit(self.old)
        return False

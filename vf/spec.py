"""Neutral model spec (plain JSON-able data), builder (spec -> real objects through the public
constructors), observer (real objects -> spec through public attributes only), snapshot.

feature := {name, abstract, ftype, fcard:[min,max], attrs:[attr..], rels:[{min,max,children:[feature..]}]}
attr    := {name, value}  |  {name, domain:{ranges:[[a,b]..], elements:[..]}, default, null}
model   := {root: feature, ctcs:[{name, ast}]}
ast     := term (str | int | float)  |  [OP, ast]  |  [OP, ast, ast]
"""
import hashlib
import itertools
import json

LOGICAL = ("NOT", "AND", "OR", "XOR", "IMPLIES", "REQUIRES", "EXCLUDES", "EQUIVALENCE")
BINLOG = LOGICAL[1:]
COMPARE = ("EQUALS", "LOWER", "GREATER", "LOWER_EQUALS", "GREATER_EQUALS", "NOT_EQUALS")
ARITH = ("ADD", "SUB", "MUL", "DIV")
AGGR = ("SUM", "AVG", "LEN", "FLOOR", "CEIL")


# ----------------------------------------------------------------------------- builder
def build(spec):
    from flamapy.core.models.ast import AST
    from flamapy.metamodels.fm_metamodel.models import FeatureModel, Constraint
    root = build_feature(spec["root"])
    # spec["share_nodes"]: structurally equal sub-expressions of all constraints are ONE Node object (the
    # expression "trees" are DAGs, as the dependency's own to_cnf()/simplify_formula() produce them)
    memo = {} if spec.get("share_nodes") else None
    ctcs = [Constraint(c["name"], AST(build_ast(c["ast"], memo))) for c in spec.get("ctcs", [])]
    return FeatureModel(root, ctcs)


def build_feature(s):
    from flamapy.metamodels.fm_metamodel.models import (Feature, Relation, Attribute, Domain, Range,
                                                         FeatureType, Cardinality)
    kw = {}
    if s.get("ftype", "Boolean") != "Boolean":
        kw["feature_type"] = FeatureType(s["ftype"])
    if s.get("fcard") and list(s["fcard"]) != [1, 1]:
        kw["feature_cardinality"] = Cardinality(s["fcard"][0], s["fcard"][1])
    f = Feature(s["name"], [], is_abstract=bool(s.get("abstract", False)), **kw)
    for a in s.get("attrs", []):
        if "domain" in a:
            d = a["domain"] or {}
            dom = Domain([Range(x, y) for x, y in d.get("ranges", [])] or None,
                         list(d.get("elements", [])) or None)
            f.add_attribute(Attribute(a["name"], dom, a.get("default"), a.get("null")))
        else:
            if "null" in a:
                f.add_attribute(Attribute(a["name"], None, a.get("value"), a["null"]))   # rarely used 4th argument
            else:
                f.add_attribute(Attribute(a["name"], None, a.get("value")))
    for r in s.get("rels", []):
        ch = [build_feature(c) for c in r["children"]]
        f.add_relation(Relation(f, ch, r["min"], r["max"]))
    return f


def build_ast(a, memo=None):
    from flamapy.core.models.ast import Node, ASTOperation as Op
    if memo is not None:
        key = json.dumps(a)
        if key in memo:
            return memo[key]
    if not isinstance(a, (list, tuple)):
        n = Node(a)
    elif len(a) == 2:
        n = Node(Op[a[0]], build_ast(a[1], memo))
    else:
        n = Node(Op[a[0]], build_ast(a[1], memo), build_ast(a[2], memo))
    if memo is not None and isinstance(a, (list, tuple)):
        memo[key] = n            # operator nodes are shared; leaves stay separate objects
    return n


# ----------------------------------------------------------------------------- observer
def _plain(v):
    """Terminal values: keep python scalars, stringify foreign objects (e.g. ANTLR nodes)
    but tag them so that a comparison with the expected plain value fails visibly."""
    if v is None or isinstance(v, (bool, int, float, str)):
        return v
    if isinstance(v, (list, tuple)):
        return [_plain(x) for x in v]
    if isinstance(v, dict):
        return {str(k): _plain(x) for k, x in v.items()}
    return {"<foreign>": type(v).__name__, "text": str(v)}


def obs_ast(n):
    if n is None:
        return None
    if not n.is_op():
        if n.left is None and n.right is None:
            return _plain(n.data)
        return {"term": _plain(n.data), "left": obs_ast(n.left), "right": obs_ast(n.right)}
    out = [n.data.name, obs_ast(n.left), obs_ast(n.right)]
    while len(out) > 1 and out[-1] is None:
        out.pop()
    return out


def obs_attr(a):
    o = {"name": a.name}
    if a.domain is not None:
        o["domain"] = {"ranges": [[_plain(r.min_value), _plain(r.max_value)] for r in a.domain.range_list],
                       "elements": [_plain(e) for e in a.domain.element_list]}
        o["default"] = _plain(a.default_value)
        o["null"] = _plain(a.null_value)
    else:
        o["value"] = _plain(a.default_value)
        if a.null_value is not None:
            o["null"] = _plain(a.null_value)
    return o


def obs_feature(f):
    ft = getattr(f.feature_type, "value", f.feature_type)
    fc = f.feature_cardinality
    return {"name": f.name, "abstract": f.is_abstract, "ftype": ft,
            "fcard": [getattr(fc, "min", None), getattr(fc, "max", None)],
            "attrs": [obs_attr(a) for a in f.attributes],
            "rels": [{"min": r.card_min, "max": r.card_max,
                      "children": [obs_feature(c) for c in r.children]} for r in f.relations]}


def observe(m):
    return {"root": obs_feature(m.root),
            "ctcs": [{"name": c.name, "ast": obs_ast(c.ast.root)} for c in m.ctcs]}


def norm_spec(spec):
    """Fill defaults so that a generator-made spec and an observation are comparable."""
    def nf(s):
        return {"name": s["name"], "abstract": s.get("abstract", False), "ftype": s.get("ftype", "Boolean"),
                "fcard": list(s.get("fcard", [1, 1])),
                "attrs": [na(a) for a in s.get("attrs", [])],
                "rels": [{"min": r["min"], "max": r["max"], "children": [nf(c) for c in r["children"]]}
                         for r in s.get("rels", [])]}

    def na(a):
        if "domain" in a:
            d = a["domain"] or {}
            return {"name": a["name"], "domain": {"ranges": [list(x) for x in d.get("ranges", [])],
                                                  "elements": list(d.get("elements", []))},
                    "default": a.get("default"), "null": a.get("null")}
        o = {"name": a["name"], "value": a.get("value")}
        return o
    return {"root": nf(spec["root"]), "ctcs": [{"name": c["name"], "ast": jast(c["ast"])}
                                              for c in spec.get("ctcs", [])]}


def jast(a):
    if isinstance(a, (list, tuple)):
        return [a[0]] + [jast(x) for x in a[1:]]
    return a


# ----------------------------------------------------------------------------- helpers on specs
def features(spec_root):
    """Pre-order walk of feature specs."""
    stack = [spec_root]
    while stack:
        f = stack.pop()
        yield f
        for r in reversed(f.get("rels", [])):
            for c in reversed(r["children"]):
                stack.append(c)


def feature_names(spec):
    return [f["name"] for f in features(spec["root"])]


def parents(spec):
    par = {}
    for f in features(spec["root"]):
        for r in f.get("rels", []):
            for c in r["children"]:
                par[c["name"]] = f["name"]
    return par


def relations(spec):
    for f in features(spec["root"]):
        for r in f.get("rels", []):
            yield f, r


def rel_kind(r):
    k = len(r["children"])
    c = (r["min"], r["max"])
    if k == 1:
        return {(1, 1): "mandatory", (0, 1): "optional"}.get(c, "dead1" if c == (0, 0) else "odd1")
    if c == (1, 1):
        return "alternative"
    if c == (1, k):
        return "or"
    if c == (0, 1):
        return "mutex"
    return "cardinality"


def canon_tree(f, fields=("abstract",)):
    """Order-insensitive canonical form of a feature subtree (relations of a feature and children of
    a relation are compared as multisets)."""
    extra = tuple(json.dumps(f.get(k), sort_keys=True, default=str) for k in fields)
    rels = sorted((r["min"], r["max"], tuple(sorted(canon_tree(c, fields) for c in r["children"])))
                  for r in f.get("rels", []))
    return (f["name"],) + extra + (tuple(rels),)


def digest(obj) -> str:
    try:
        data = json.dumps(obj, sort_keys=True, default=str).encode()
    except RecursionError:
        data = _flat(obj)
    return hashlib.sha256(data).hexdigest()[:16]


def _flat(obj) -> bytes:
    """Iterative canonical serialisation for very deep structures (the C JSON encoder has its own
    recursion limit)."""
    out = []
    stack = [obj]
    while stack:
        o = stack.pop()
        if isinstance(o, dict):
            out.append("{")
            stack.append("}")
            for k in sorted(o, key=str, reverse=True):
                stack.append(o[k])
                stack.append("\x00k:" + str(k))
        elif isinstance(o, (list, tuple)):
            out.append("[")
            stack.append("]")
            stack.extend(reversed(o))
        else:
            out.append(repr(o))
    return "\x01".join(out).encode()


# ----------------------------------------------------------------------------- logic on spec ASTs
def ast_names(t, acc=None):
    """Feature/attribute names occurring in a spec AST: terms that are not numbers and not quoted
    strings; every child of every node is visited, whatever the operator."""
    acc = set() if acc is None else acc
    if isinstance(t, (list, tuple)):
        for x in t[1:]:
            if x is not None:
                ast_names(x, acc)
    elif isinstance(t, dict):
        acc.add(json.dumps(t, sort_keys=True))
    elif isinstance(t, str):
        if not t.startswith("'"):
            acc.add(t)
    return acc


def ast_ops(t, acc=None):
    acc = [] if acc is None else acc
    if isinstance(t, (list, tuple)):
        acc.append(t[0])
        for x in t[1:]:
            ast_ops(x, acc)
    return acc


def ast_depth(t):
    if isinstance(t, (list, tuple)):
        return 1 + max([ast_depth(x) for x in t[1:]] or [0])
    return 0


def is_logical_ast(t):
    return all(o in LOGICAL for o in ast_ops(t))


def atomize(t, table):
    """Replace maximal non-logical subtrees (comparisons, arithmetic, aggregates, literals that are
    not names) by opaque atoms keyed by their normalised structure."""
    if isinstance(t, (list, tuple)) and t[0] in LOGICAL:
        return [t[0]] + [atomize(x, table) for x in t[1:]]
    if isinstance(t, str) and not t.startswith("'"):
        return t
    key = json.dumps(norm_arith(t), sort_keys=True)
    return table.setdefault(key, f"<atom{len(table)}>")


def norm_arith(t):
    if isinstance(t, (list, tuple)):
        return [t[0]] + [norm_arith(x) for x in t[1:]]
    if isinstance(t, bool):
        return t
    if isinstance(t, (int, float)):
        return float(t)
    return t


def ev(t, env):
    if not isinstance(t, (list, tuple)):
        return env[t]
    o = t[0]
    if o == "NOT":
        return not ev(t[1], env)
    a, b = ev(t[1], env), ev(t[2], env)
    if o == "AND":
        return a and b
    if o == "OR":
        return a or b
    if o == "XOR":
        return a != b
    if o in ("IMPLIES", "REQUIRES"):
        return (not a) or b
    if o == "EXCLUDES":
        return not (a and b)
    if o == "EQUIVALENCE":
        return a == b
    raise ValueError("not a logical operator: %r" % (o,))


def wellformed_ast(t):
    """Spec-level shape check: NOT has exactly one operand, binary operators two, aggregates one or
    two, terms are scalars.  (Explicit stack: chains of several hundred operands are legitimate inputs.)"""
    stack = [t]
    while stack:
        t = stack.pop()
        if isinstance(t, (list, tuple)):
            if not t or not isinstance(t[0], str):
                return False
            n = len(t) - 1
            if t[0] == "NOT":
                ok = n == 1
            elif t[0] in AGGR:
                ok = n in (1, 2)
            else:
                ok = n == 2
            if not ok:
                return False
            for x in t[1:]:
                if x is None:
                    return False
                stack.append(x)
        elif not (isinstance(t, (str, int, float)) and not isinstance(t, bool)):
            return False
    return True


def equivalent(a, b):
    """Complete truth-table equivalence of two spec ASTs whose non-logical parts are treated as
    opaque atoms.  Returns True/False, or a string describing why it cannot be evaluated."""
    if not (wellformed_ast(a) and wellformed_ast(b)):
        return "malformed-ast"
    table = {}
    a2, b2 = atomize(a, table), atomize(b, table)
    vs = sorted(ast_names(a2) | ast_names(b2))
    if len(vs) > 16:
        return _sampled_equivalent(lambda env: ev(a2, env), lambda env: ev(b2, env), vs)
    for vals in itertools.product((False, True), repeat=len(vs)):
        env = dict(zip(vs, vals))
        if ev(a2, env) != ev(b2, env):
            return False
    return True


SAMPLED = [0]   # number of equivalence judgements that had to be sampled (more than 16 variables)


def _sampled_equivalent(fa, fb, vs):
    """More than 16 variables: a complete truth table is out of reach.  Refutation by structured and random
    assignments (all true/false, every single flip of those, every pair flip for up to 40 variables, and
    biased random assignments); a difference found is a sound refutation, none found is 'held on the sample'."""
    import random
    SAMPLED[0] += 1
    r = random.Random(len(vs))
    n = len(vs)
    cands = []
    for basev in (True, False):
        base = [basev] * n
        cands.append(base)
        for i in range(n):
            c = list(base)
            c[i] = not basev
            cands.append(c)
        if n <= 40:
            for i in range(n):
                for j in range(i + 1, n):
                    c = list(base)
                    c[i] = c[j] = not basev
                    cands.append(c)
    for p in (0.1, 0.3, 0.5, 0.7, 0.9):
        for _ in range(300):
            cands.append([r.random() < p for _ in range(n)])
    for vals in cands:
        env = dict(zip(vs, vals))
        if fa(env) != fb(env):
            return False
    return True


def equivalent_conj(a, parts):
    """Like equivalent(a, AND(parts...)) without building a deeply nested conjunction."""
    if not wellformed_ast(a) or not all(wellformed_ast(p) for p in parts):
        return "malformed-ast"
    table = {}
    a2 = atomize(a, table)
    p2 = [atomize(p, table) for p in parts]
    vs = set(ast_names(a2))
    for p in p2:
        vs |= ast_names(p)
    vs = sorted(vs)
    if len(vs) > 16:
        return _sampled_equivalent(lambda env: ev(a2, env), lambda env: all(ev(p, env) for p in p2), vs)
    for vals in itertools.product((False, True), repeat=len(vs)):
        env = dict(zip(vs, vals))
        if ev(a2, env) != all(ev(p, env) for p in p2):
            return False
    return True


# ----------------------------------------------------------------------------- snapshot (purity)
def snapshot_or_none(m):
    """snapshot(), or None when the tree is too deep for the recursive walker."""
    try:
        return snapshot(m)
    except RecursionError:
        return None


def snapshot(m):
    """Deep snapshot of everything reachable from the model, including object identities and list
    orders, parent pointers and the shared default Cardinality.  Used before/after a call window."""
    seen = {}

    def sf(f):
        if id(f) in seen:
            return ("<again>", id(f))
        seen[id(f)] = 1
        fc = f.feature_cardinality
        return ("F", id(f), f.name, f.is_abstract, getattr(f.feature_type, "value", repr(f.feature_type)),
                id(fc), getattr(fc, "min", None), getattr(fc, "max", None),
                id(f.parent) if f.parent is not None else None, id(f.relations), id(f.attributes),
                tuple(sa(a) for a in f.attributes),
                tuple(("R", id(r), id(r.parent) if r.parent is not None else None, r.card_min, r.card_max,
                       id(r.children), tuple(sf(c) for c in r.children)) for r in f.relations))

    def sa(a):
        d = a.domain
        return ("A", id(a), a.name, id(a.parent) if a.parent is not None else None, sv(a.default_value),
                sv(a.null_value), None if d is None else
                (id(d), id(d.range_list), tuple((id(r), sv(r.min_value), sv(r.max_value)) for r in d.range_list),
                 id(d.element_list), tuple(sv(e) for e in d.element_list)))

    def sv(v):
        if isinstance(v, (list, tuple)):
            return (type(v).__name__, id(v), tuple(sv(x) for x in v))
        if isinstance(v, dict):
            return ("dict", id(v), tuple((sv(k), sv(x)) for k, x in v.items()))
        if v is None or isinstance(v, (bool, int, float, str)):
            return (type(v).__name__, v)
        return (type(v).__name__, id(v), str(v))

    def sn(n):
        if n is None:
            return None
        return ("N", id(n), n.data if not hasattr(n.data, "name") else ("OP", n.data.name), sn(n.left), sn(n.right))

    return ("M", id(m.root), sf(m.root), id(m.ctcs),
            tuple(("C", id(c), c.name, id(c.ast), sn(c.ast.root)) for c in m.ctcs))


def snapshot_ast(ast):
    def sn(n):
        if n is None:
            return None
        return (id(n), n.data if not hasattr(n.data, "name") else ("OP", n.data.name), sn(n.left), sn(n.right))
    return (id(ast), sn(ast.root))


def first_diff(a, b, path="$"):
    """Locate the first difference between two snapshots (for witnesses)."""
    if type(a) != type(b):
        return f"{path}: {a!r} != {b!r}"
    if isinstance(a, tuple):
        if len(a) != len(b):
            return f"{path}: length {len(a)} != {len(b)}"
        for i, (x, y) in enumerate(zip(a, b)):
            d = first_diff(x, y, f"{path}[{i}]")
            if d:
                return d
        return None
    return None if a == b else f"{path}: {a!r} != {b!r}"


# ----------------------------------------------------------------------------- in-place AST edits (histories)
def inplace_edit_ast(ast_obj, ast_spec, r, names, ops=("AND", "OR", "IMPLIES")):
    """Edit the live expression tree IN PLACE - node attributes are assigned directly, neither the AST object nor
    the Constraint.ast setter is involved - and return the spec of the edited tree (None if not applicable).
    Kinds: change the operator of a binary node, rename a leaf (node.data), replace an operand (node.right/left)."""
    from flamapy.core.models.ast import Node, ASTOperation as Op
    if not isinstance(ast_spec, list):
        return None
    new = jast(ast_spec)
    # collect (live node, spec node) pairs for operator nodes, top-down
    pairs = []
    stack = [(ast_obj.root, new)]
    while stack:
        n, s = stack.pop()
        if isinstance(s, list):
            pairs.append((n, s))
            kids = [n.left, n.right]
            for k, sub in zip(kids, s[1:]):
                if isinstance(sub, list):
                    stack.append((k, sub))
    n, s = r.choice(pairs)
    kind = r.choice(["operator", "leaf", "operand", "shape", "shape"])
    if kind == "shape":
        # re-hang existing nodes so that the pre-order lists of operators and of operands stay what they were
        cands = [(nn, ss) for nn, ss in pairs if len(ss) == 3 and ss[0] in LOGICAL and isinstance(ss[1], list)]
        r.shuffle(cands)
        for nn, ss in cands:
            left_s = ss[1]
            if len(left_s) == 3 and left_s[0] in LOGICAL:
                # rotation: (x op2 y) op z  ->  x op (y op2' z) with the SAME two operator nodes
                lnode = nn.left
                a, b, c = lnode.left, lnode.right, nn.right
                nn.left, lnode.left, lnode.right, nn.right = a, b, c, lnode
                sa, sb, sc = left_s[1], left_s[2], ss[2]
                ss[1], ss[2] = sa, [left_s[0], sb, sc]
                return new
            if left_s[0] == "NOT" and isinstance(ss[2], list) and len(ss[2]) == 3 and ss[2][0] in LOGICAL:
                # widen a negation: !x op (y op2 z)  ->  !(x op2 y) op z
                notn, m = nn.left, nn.right
                a, b, c = notn.left, m.left, m.right
                m.left, m.right, notn.left, nn.right = a, b, m, c
                sa, sm = left_s[1], ss[2]
                ss[1], ss[2] = ["NOT", [sm[0], sa, sm[1]]], sm[2]
                return new
            if left_s[0] == "NOT":
                # move a negation: !x op y  ->  x op !y
                notn = nn.left
                a, b = notn.left, nn.right
                notn.left, nn.left, nn.right = b, a, notn
                ss[1], ss[2] = left_s[1], ["NOT", ss[2]]
                return new
        kind = "operator"
    if kind == "operator" and s[0] in LOGICAL and s[0] != "NOT":
        cands = [o for o in ops if o != s[0]]
        newop = r.choice(cands)
        n.data = Op[newop]
        s[0] = newop
        return new
    # a leaf below this node
    idx = [i for i in (1, 2) if i < len(s) and not isinstance(s[i], list)]
    if kind == "leaf" and idx:
        i = r.choice(idx)
        other = r.choice([x for x in names if x != s[i]] or names)
        (n.left if i == 1 else n.right).data = other
        s[i] = other
        return new
    i = 2 if len(s) > 2 else 1
    other = r.choice(names)
    repl = ["NOT", other] if r.random() < 0.5 else other
    if i == 2:
        n.right = build_ast(repl)
    else:
        n.left = build_ast(repl)
    s[i] = repl
    return new


def rename_ast(t, mapping):
    """Spec-level rename of the terms of an expression tree."""
    if isinstance(t, list):
        return [t[0]] + [rename_ast(x, mapping) for x in t[1:]]
    return mapping.get(t, t) if isinstance(t, str) else t

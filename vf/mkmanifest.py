"""Regenerates /verif/MANIFEST.json from the table below (run: /venv/bin/python -m vf.mkmanifest).
Properties without a check module are listed under not_applicable with the reason given in PENDING.
"""
import json
import os

VERIF = os.path.dirname(os.path.dirname(os.path.abspath(__file__)))
BASELINE_OFF = ("cd /repo && /venv/bin/python -m pytest -ra -q -p no:cacheprovider --timeout=900 "
                "--continue-on-collection-errors")

CHECKS = {
    "C13": ("exploration", "3.8",
            "runtime monitor: the real FMEstimatedConfigurationsNumber is executed on every small tree shape "
            "(exhaustive up to 6/7 features, every cardinality) and on random/corpus models and its result is "
            "compared with an independent configuration enumerator; held = no disagreement on the executions "
            "listed in the evidence",
            "harness enumerators (2^n filter, bottom-up generator, DP counter) cross-validated in every run",
            "reference-model monitor (brute-force configuration enumerator) over exhaustive small scopes"),
    "C14": ("exploration", "3.8",
            "runtime monitor: FMCoreFeatures on exhaustive small shapes/random/corpus models vs the "
            "always-selected set computed by enumeration",
            "harness enumerator; closure oracle for >14 features cross-validated on small models",
            "reference-model monitor (always-selected set by enumeration)"),
    "C15": ("exploration", "3.8",
            "runtime monitor: FMAtomicSets results checked for partition, co-selection in every enumerated "
            "configuration, and mandatory-chain coarseness",
            "harness enumerator", "reference-model monitor (co-selection over enumerated configurations)"),
    "C16": ("exploration", "3.9",
            "runtime monitor: the six tree operations executed on exhaustive small shapes, degenerate and large "
            "random trees and the shipped corpus, each result compared with a reference definition computed on "
            "the observed tree; ancestors for every feature",
            "reference definitions written from the property text; observation through public attributes",
            "reference-definition monitor over exhaustive small scopes + corpus"),
}

PENDING = {}


def main():
    checks = []
    na = []
    for i in range(1, 21):
        pid = f"C{i:02d}"
        if pid in CHECKS and os.path.exists(os.path.join(VERIF, "vf", "checks", pid.lower() + ".py")):
            cat, ref, text, note, tech = CHECKS[pid]
            checks.append({"property_id": pid, "quick_cmd": f"./check {pid} --tier quick",
                           "thorough_cmd": f"./check {pid} --tier thorough",
                           "evidence_file": f"/verif/evidence/{pid}.json",
                           "replay_cmd_template": f"./check {pid} --replay {{path}}",
                           "engine": "vf-runtime-monitors",
                           "level_claimed": {"category": cat, "text": text, "design_ref": f"DESIGN.md §{ref}"},
                           "level_note": note, "technique": tech})
        else:
            na.append({"property_id": pid, "reason": PENDING.get(
                pid, "check not built yet in this round (runtime monitoring applies; see DESIGN.md §3) - "
                     "not claimed until its monitor exists and is silent on the unchanged tree")})
    man = {"version": 1, "setup_cmd": "./setup.sh",
           "hooks": {"guard": "FLAMAPY_FM_METAMODEL_VERIF",
                     "enable": "no guarded code exists in /repo: all monitors are attached from the harness "
                               "process (class attributes, sys.monitoring, sys.addaudithook); checks import "
                               "/repo's working tree directly (editable install, PYTHONPATH=/repo)",
                     "baseline_off_cmd": BASELINE_OFF, "source_commits": [], "add_only": True},
           "engines": [{"name": "vf-runtime-monitors", "path": "/verif/vf",
                        "serves_properties": [c["property_id"] for c in checks],
                        "kind_free_text": "Python runtime monitors: reference-model oracles, invariant walkers, "
                                          "purity snapshots, sys.monitoring reach counters, audit hooks, "
                                          "icontract contracts; sharded over 16 processes"}],
           "checks": checks, "not_applicable": na,
           "notes": "Exit 0 = held on what was observed; 1 = VIOLATION; 2 = INCONCLUSIVE (deciding monitor not "
                    "reached / harness failure; no verdict). known_findings.json lists recorded and fixed "
                    "defects; fix: commits in /repo are recorded there as status=fixed."}
    with open(os.path.join(VERIF, "MANIFEST.json"), "w", encoding="utf-8") as fh:
        json.dump(man, fh, indent=1)
        fh.write("\n")
    print("MANIFEST.json:", len(checks), "checks,", len(na), "not_applicable")


if __name__ == "__main__":
    main()

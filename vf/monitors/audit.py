"""I/O monitor on sys.addaudithook: records file opens, process spawns and socket use that happen
while a window is open (events raised by the harness itself outside windows are ignored)."""
import sys

_events = []
_active = [False]
_installed = [False]
WATCH = ("open", "subprocess.Popen", "os.system", "os.exec", "os.posix_spawn", "socket.connect", "socket.bind",
         "os.remove", "os.rename", "os.mkdir", "os.rmdir", "shutil.rmtree")


def _hook(event, args):
    if _active[0] and event in WATCH:
        if event == "open":
            path, mode = args[0], args[1]
            if isinstance(path, (str, bytes)) and ("__pycache__" in str(path) or str(path).endswith((".py", ".pyc"))):
                return
            _events.append(("open", str(path), str(mode)))
        else:
            _events.append((event, str(args[0])[:200] if args else ""))


def install():
    if not _installed[0]:
        sys.addaudithook(_hook)
        _installed[0] = True


class window:
    def __enter__(self):
        install()
        del _events[:]
        _active[0] = True
        return self

    def __exit__(self, *a):
        _active[0] = False
        self.events = list(_events)
        return False

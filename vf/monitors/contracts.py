"""Ambient contracts (icontract) attached to the real classes from the harness process.

Conditions *record and return True* (they never abort the execution they observe); every evaluation is
counted, so a contract that was never evaluated shows up as zero (inconclusive), not as held.
Original, unwrapped functions are used inside conditions, so a condition never re-enters a contract.

Contracts:
  get_features-once        FeatureModel.get_features lists each feature once (by identity) and the root
  get_relations-once       FeatureModel.get_relations lists each relation once (by identity)
  lookup-by-name           FeatureModel.get_feature_by_name(n) returns None or a feature named n
  relation-partition       Relation.is_* : at most one of the six classes, exactly the class of (min,max,k)
  eq-symmetric-hash        __eq__ of Feature/Relation/Constraint/FeatureModel is symmetric and hash-consistent
  reader-wellformed        every reader's transform() returns a model on which the wf walker is silent
"""
import collections
import json

import icontract

EVALS = collections.Counter()
VIOLATIONS = []
_installed = [False]
ORIG = {}


class ContractBroken(Exception):
    pass


def _record(name, ok, detail):
    EVALS[name] += 1
    if not ok and len(VIOLATIONS) < 200:
        VIOLATIONS.append({"contract": name, "detail": str(detail() if callable(detail) else detail)[:400]})
    return True


def install(which=("queries", "eq", "readers")):
    if _installed[0]:
        return
    _installed[0] = True
    from flamapy.metamodels.fm_metamodel.models import feature_model as FM
    from flamapy.metamodels.fm_metamodel import transformations as T
    from .. import refdefs
    from . import wf

    if "queries" in which:
        def features_once(self, result):
            ids = [id(f) for f in result]
            ok = len(ids) == len(set(ids)) and (self.root is None or any(f is self.root for f in result))
            return _record("get_features-once", ok, lambda: f"{len(ids)} listed, {len(set(ids))} distinct")

        def relations_once(self, feature, result):
            ids = [id(r) for r in result]
            return _record("get_relations-once", len(ids) == len(set(ids)), lambda: f"{len(ids)} listed, {len(set(ids))} distinct")

        def lookup_ok(self, feature_name, result):
            return _record("lookup-by-name", result is None or result.name == feature_name,
                           lambda: f"{feature_name!r} -> {getattr(result, 'name', None)!r}")
        FM.FeatureModel.get_features = icontract.ensure(features_once, error=ContractBroken)(FM.FeatureModel.get_features)
        FM.FeatureModel.get_relations = icontract.ensure(relations_once, error=ContractBroken)(FM.FeatureModel.get_relations)
        FM.FeatureModel.get_feature_by_name = icontract.ensure(lookup_ok, error=ContractBroken)(FM.FeatureModel.get_feature_by_name)

        preds = {"mandatory": "is_mandatory", "optional": "is_optional", "or": "is_or", "alternative": "is_alternative",
                 "mutex": "is_mutex", "cardinal": "is_cardinal"}
        for m in preds.values():
            ORIG["Relation." + m] = getattr(FM.Relation, m)

        busy = [False]

        def partition(self, result):
            if busy[0]:      # is_cardinal calls the (wrapped) other predicates: judge the outermost call only
                return True
            busy[0] = True
            try:
                got = [c for c, m in preds.items() if ORIG["Relation." + m](self)]
            finally:
                busy[0] = False
            k = len(self.children)
            want = refdefs.rel_class(self.card_min, self.card_max, k) if (
                isinstance(self.card_min, int) and isinstance(self.card_max, int) and 0 <= self.card_min and
                (self.card_min <= self.card_max <= k)) else "unjudged"
            ok = len(got) <= 1 and (want == "unjudged" or got == ([want] if want else []))
            return _record("relation-partition", ok, lambda: f"[{self.card_min},{self.card_max}]x{k} -> {got}, expected {want}")
        for m in preds.values():
            setattr(FM.Relation, m, icontract.ensure(partition, error=ContractBroken)(ORIG["Relation." + m]))

    if "eq" in which:
        for cls in (FM.Feature, FM.Relation, FM.Constraint, FM.FeatureModel):
            oeq, ohash = cls.__eq__, cls.__hash__
            ORIG[cls.__name__ + ".__eq__"] = oeq

            def eq_contract(self, other, result, _oeq=oeq, _ohash=ohash, _cls=cls):
                if not isinstance(other, _cls):
                    return _record("eq-symmetric-hash", result is False or result is NotImplemented, "equal to a foreign object")
                rev = _oeq(other, self)
                ok = bool(rev) == bool(result) and (not result or _ohash(self) == _ohash(other))
                return _record("eq-symmetric-hash", ok, lambda: f"{_cls.__name__}: a==b {result} b==a {rev}")
            wrapped = icontract.ensure(eq_contract, error=ContractBroken)(oeq)
            cls.__eq__ = wrapped
            cls.__hash__ = ohash   # defining __eq__ on a class would otherwise reset __hash__

    if "readers" in which:
        for name in ("UVLReader", "AFMReader", "JSONReader", "GlencoeReader", "FeatureIDEReader", "XMLReader"):
            R = getattr(T, name)

            def wellformed(self, result, _name=name):
                probs, _ = wf.problems(result)
                return _record("reader-wellformed:" + _name, not probs, lambda: "; ".join(probs[:3]))
            R.transform = icontract.ensure(wellformed, error=ContractBroken)(R.transform)


def dump(path):
    with open(path, "w", encoding="utf-8") as fh:
        json.dump({"evaluations": dict(EVALS), "violations": VIOLATIONS}, fh)

"""Well-formedness walker (invariant at a quiescent point): run on every model a reader returns."""
from .. import spec as S

AGGR = set(S.AGGR)


def ast_problems(node, path="ast"):
    out = []
    stack = [(node, path)]
    seen = set()
    while stack:
        n, p = stack.pop()
        if n is None:
            out.append(f"{p}: missing node")
            continue
        if id(n) in seen:
            out.append(f"{p}: node shared/cyclic")
            continue
        seen.add(id(n))
        if not n.is_op():
            if n.left is not None or n.right is not None:
                out.append(f"{p}: term {n.data!r} has children")
            if isinstance(n.data, bool) or not isinstance(n.data, (str, int, float)):
                out.append(f"{p}: term data is {type(n.data).__name__}")
            elif isinstance(n.data, str) and n.data == "":
                out.append(f"{p}: empty term")
            continue
        name = n.data.name
        if name == "NOT":
            if n.left is None:
                out.append(f"{p}: NOT without left operand (operand in right={n.right is not None})")
            if n.right is not None:
                out.append(f"{p}: NOT with a right operand")
            if n.left is not None:
                stack.append((n.left, p + ".left"))
        elif name in AGGR:
            if n.left is None:
                out.append(f"{p}: {name} without left operand")
            for side in ("left", "right"):
                c = getattr(n, side)
                if c is not None:
                    stack.append((c, p + "." + side))
        else:
            if n.left is None or n.right is None:
                out.append(f"{p}: binary {name} with missing operand (left={n.left is not None}, right={n.right is not None})")
            for side in ("left", "right"):
                c = getattr(n, side)
                if c is not None:
                    stack.append((c, p + "." + side))
    return out


def ast_names(node):
    """Names by an independent walk: every child of every node, whatever the operator."""
    out = set()
    stack = [node]
    seen = set()
    while stack:
        n = stack.pop()
        if n is None or id(n) in seen:
            continue
        seen.add(id(n))
        if not n.is_op():
            d = n.data
            if isinstance(d, str):
                if not d.startswith("'"):   # AST convention: a term starting with ' is a string literal
                    out.add(d)
            elif not isinstance(d, (int, float)):
                out.add(str(d))
        stack.append(n.left)
        stack.append(n.right)
    return out


def problems(model):
    from flamapy.metamodels.fm_metamodel.models import feature_model as FM
    out = []
    root = model.root
    if root is None:
        return ["model has no root"], (0, 0, 0)
    if root.parent is not None:
        out.append(f"root {root.name!r} has a parent")
    seen = {}
    stack = [(root, None)]
    nfeat = nrel = nattr = 0
    while stack:
        f, owner = stack.pop()
        if id(f) in seen:
            out.append(f"feature {f.name!r} reached twice")
            continue
        seen[id(f)] = f
        nfeat += 1
        if owner is not None and f.parent is not owner:
            out.append(f"feature {f.name!r}.parent is {getattr(f.parent, 'name', None)!r}, owner is {owner.name!r}")
        if not isinstance(f.name, str) or f.name == "":
            out.append(f"feature name {f.name!r}")
        if not isinstance(f.is_abstract, bool):
            out.append(f"feature {f.name!r}.is_abstract is {f.is_abstract!r}")
        for a in f.attributes:
            nattr += 1
            if a.parent is not f:
                out.append(f"attribute {f.name}.{a.name}.parent is not the feature")
        for r in f.relations:
            nrel += 1
            if r.parent is not f:
                out.append(f"relation of {f.name!r}.parent is {getattr(r.parent, 'name', None)!r}")
            if len(r.children) < 1:
                out.append(f"empty relation under {f.name!r}")
            if not isinstance(r.card_min, int) or not isinstance(r.card_max, int) or isinstance(r.card_min, bool):
                out.append(f"relation of {f.name!r} cardinality [{r.card_min!r},{r.card_max!r}] not int")
            for c in r.children:
                stack.append((c, f))
    nnode = 0
    for i, c in enumerate(model.ctcs):
        ps = ast_problems(c.ast.root, f"ctc[{i}]")
        out.extend(ps)
        if not ps:
            try:
                got = set(c.get_features())
            except Exception as e:  # noqa: BLE001
                out.append(f"ctc[{i}].get_features raises {type(e).__name__}: {e}")
                continue
            want = ast_names(c.ast.root)
            if got != want:
                out.append(f"ctc[{i}].get_features {sorted(got)} != names in tree {sorted(want)}")
    default = FM.Feature.__init__.__defaults__[-1]
    if (default.min, default.max) != (1, 1):
        out.append(f"shared default Cardinality is [{default.min}..{default.max}]")
    return out, (nfeat, nrel, nattr)

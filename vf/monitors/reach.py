"""Anchor-reach monitor: sys.monitoring PY_START counters for functions of the repo package.

Registers under a free tool id (never COVERAGE_ID/DEBUGGER_ID; nothing here uses sys.settrace, so
an external coverage tracer started through the venv's .pth hook keeps working).  Code outside the
package returns DISABLE at once; package code is counted up to CAP activations per code object and
then disabled, which bounds the overhead.
"""
import collections
import sys

CAP = 2000
_counts = collections.Counter()
_tool = None
_pkg = None


def start(pkg_dir):
    global _tool, _pkg
    mon = sys.monitoring
    _pkg = pkg_dir
    for tid in (4, 3, 5):  # free ids (0 debugger, 1 coverage, 2 profiler, 5 optimizer are named)
        if mon.get_tool(tid) is None:
            _tool = tid
            break
    else:
        return False
    mon.use_tool_id(_tool, "vf-reach")

    def on_start(code, offset):
        fn = code.co_filename
        if not fn.startswith(_pkg):
            return mon.DISABLE
        key = fn[len(_pkg) + 1:].rsplit("/", 1)[-1] + ":" + code.co_qualname
        _counts[key] += 1
        if _counts[key] >= CAP:
            return mon.DISABLE
        return None

    mon.register_callback(_tool, mon.events.PY_START, on_start)
    mon.set_events(_tool, mon.events.PY_START)
    return True


def stop():
    if _tool is not None:
        sys.monitoring.set_events(_tool, 0)
        sys.monitoring.free_tool_id(_tool)


def counts():
    return dict(_counts)

"""Write barrier: while a window is open, every attribute assignment on a model-element object is
logged with the function that performed it.  The *verdict* on purity is the snapshot comparison
(vf.spec.snapshot) made by the checks; this log is the witness, and it also reveals
mutate-then-restore behaviour (reported as a counter, never as a violation on its own)."""
import sys

_log = []
_active = [False]
_installed = [False]


def install():
    if _installed[0]:
        return
    from flamapy.core.models.ast import Node, AST
    from flamapy.metamodels.fm_metamodel.models import feature_model as FM
    classes = [FM.Feature, FM.Relation, FM.Constraint, FM.FeatureModel, FM.Attribute, FM.Domain, FM.Range,
               FM.Cardinality, Node, AST]
    for cls in classes:
        orig = cls.__setattr__

        def hooked(self, name, value, _orig=orig, _cls=cls.__name__):
            if _active[0]:
                try:
                    old = self.__dict__.get(name, "<unset>")
                except Exception:  # noqa: BLE001
                    old = "<?>"
                if old is not value:
                    fr = sys._getframe(1)
                    _log.append((_cls, name, fr.f_code.co_filename.rsplit("/", 1)[-1] + ":" + fr.f_code.co_qualname))
            _orig(self, name, value)
        cls.__setattr__ = hooked
    _installed[0] = True


class window:
    def __enter__(self):
        install()
        del _log[:]
        _active[0] = True
        return self

    def __exit__(self, *a):
        _active[0] = False
        self.writes = list(_log)
        return False

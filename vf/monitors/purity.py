"""Write barrier: while a window is open, every attribute assignment on a model-element object is
logged with the function that performed it.  The *verdict* on purity is the snapshot comparison
(vf.spec.snapshot) made by the checks; this log is the witness, and it also reveals
mutate-then-restore behaviour (reported as a counter, never as a violation on its own)."""
import sys

_log = []
_active = [False]
_installed = [False]
_scope = [None]   # ids of the objects that belong to the model under watch (None = every object)


def reachable_ids(model):
    ids = set()
    ids.add(id(model))
    stack = [model.root]
    while stack:
        f = stack.pop()
        if f is None or id(f) in ids:
            continue
        ids.add(id(f))
        ids.add(id(f.feature_cardinality))
        for a in f.attributes:
            ids.add(id(a))
            if a.domain is not None:
                ids.add(id(a.domain))
                ids.update(id(r) for r in a.domain.range_list)
        for r in f.relations:
            ids.add(id(r))
            stack.extend(r.children)
    for c in model.ctcs:
        ids.add(id(c))
        ids.add(id(c.ast))
        ns = [c.ast.root]
        while ns:
            n = ns.pop()
            if n is None or id(n) in ids:
                continue
            ids.add(id(n))
            ns.extend([n.left, n.right])
    return ids


def install():
    if _installed[0]:
        return
    from flamapy.core.models.ast import Node, AST
    from flamapy.metamodels.fm_metamodel.models import feature_model as FM
    classes = [FM.Feature, FM.Relation, FM.Constraint, FM.FeatureModel, FM.Attribute, FM.Domain, FM.Range,
               FM.Cardinality, Node, AST]
    for cls in classes:
        orig = cls.__setattr__

        def hooked(self, name, value, _orig=orig, _cls=cls.__name__):
            if _active[0] and (_scope[0] is None or id(self) in _scope[0]):
                try:
                    old = self.__dict__.get(name, "<unset>")
                except Exception:  # noqa: BLE001
                    old = "<?>"
                if old is not value:
                    fr = sys._getframe(1)
                    _log.append((_cls, name, fr.f_code.co_filename.rsplit("/", 1)[-1] + ":" + fr.f_code.co_qualname))
            _orig(self, name, value)
        cls.__setattr__ = hooked
    _installed[0] = True


class window:
    def __init__(self, model=None):
        self.model = model

    def __enter__(self):
        install()
        del _log[:]
        _scope[0] = reachable_ids(self.model) if self.model is not None else None
        _active[0] = True
        return self

    def __exit__(self, *a):
        _active[0] = False
        _scope[0] = None
        self.writes = list(_log)
        return False

"""Independent interpreter of SXFM (SPLOT) documents: document -> set of selections.

Written from the SXFM format description: <feature_tree> lines are indented by tabs; ':r name (id)' is
the root, ':m' a mandatory child, ':o' an optional child, ':g [a,b]' a group whose members are the
': name (id)' lines one level deeper ('*' = number of members); <constraints> holds CNF clauses
'Cn: lit or lit ...' with '~' for negation.  Meaning: child => parent for every feature; ':m' child <=>
parent; a group under a selected parent has between a and b selected members.
"""
import re


class SxfmError(ValueError):
    pass


def parse(text, with_constraints=True):
    if "<feature_tree>" not in text or "</feature_tree>" not in text:
        raise SxfmError("no feature_tree section")
    tree = text.split("<feature_tree>", 1)[1].split("</feature_tree>", 1)[0].strip("\n").split("\n")
    cons = []
    if "<constraints>" in text:
        cons = text.split("<constraints>", 1)[1].split("</constraints>", 1)[0].strip("\n").split("\n")
    nodes = []
    for ln in tree:
        if not ln.strip():
            continue
        d = len(ln) - len(ln.lstrip("\t"))
        b = ln.strip()
        m = re.match(r":(r|m|o) (.+) \((.+)\)$", b, re.S)
        if m:
            nodes.append((d, m.group(1), m.group(3), None))
            continue
        m = re.match(r":g \[(\d+),(\d+|\*)\]$", b)
        if m:
            nodes.append((d, "g", None, (int(m.group(1)), m.group(2))))
            continue
        m = re.match(r": (.+) \((.+)\)$", b, re.S)
        if m:
            nodes.append((d, "c", m.group(2), None))
            continue
        raise SxfmError("unparseable feature_tree line " + repr(ln))
    root = None
    stack = []
    ids = []
    for d, k, i, c in nodes:
        while stack and stack[-1]["d"] >= d:
            stack.pop()
        parent = stack[-1] if stack else None
        node = {"d": d, "k": k, "id": i, "card": c, "kids": [], "parent": parent}
        if parent is not None:
            if d != parent["d"] + 1:
                raise SxfmError("indentation jumps")
            if (k == "c") != (parent["k"] == "g"):
                raise SxfmError("group member outside a group / solitary feature inside a group")
            parent["kids"].append(node)
        elif k != "r":
            raise SxfmError("first line is not the root")
        stack.append(node)
        if i is not None:
            if i in ids:
                raise SxfmError("duplicate id " + i)
            ids.append(i)
        if k == "r":
            if root is not None:
                raise SxfmError("two roots")
            root = node
    if root is None:
        raise SxfmError("no root")
    clauses = []
    for ln in (cons if with_constraints else []):
        if not ln.strip():
            continue
        if ":" not in ln:
            raise SxfmError("constraint line without name: " + repr(ln))
        body = ln.split(":", 1)[1]
        lits = []
        for t in body.split(" or "):
            t = t.strip()
            neg = t.startswith("~")
            v = t[1:] if neg else t
            if v not in ids:
                raise SxfmError(f"constraint refers to unknown id {v!r}")
            lits.append((v, not neg))
        clauses.append(lits)
    return root, ids, clauses


def unquote(i):
    return i[1:-1] if len(i) >= 2 and i[0] == '"' and i[-1] == '"' else i


def selections(text):
    """(ids, set of frozensets of selected ids)."""
    root, ids, clauses = parse(text)
    bit = {i: 1 << k for k, i in enumerate(ids)}

    def featparent(n):
        p = n["parent"]
        while p is not None and p["k"] == "g":
            p = p["parent"]
        return p

    rules = []   # (kind, ...)

    def walk(n):
        if n["k"] in "moc":
            p = featparent(n)
            rules.append(("child", bit[n["id"]], bit[p["id"]], n["k"] == "m"))
        if n["k"] == "g":
            p = featparent(n)
            lo, hi = n["card"]
            hi = len(n["kids"]) if hi == "*" else int(hi)
            rules.append(("group", bit[p["id"]], [bit[c["id"]] for c in n["kids"]], lo, hi))
        for c in n["kids"]:
            walk(c)
    walk(root)
    rb = bit[root["id"]]
    out = set()
    cl = [[(bit[v], pos) for v, pos in c] for c in clauses]
    for mask in range(1 << len(ids)):
        if not mask & rb:
            continue
        ok = True
        for r in rules:
            if r[0] == "child":
                _, cb, pb, mand = r
                if (mask & cb) and not (mask & pb):
                    ok = False
                    break
                if mand and (mask & pb) and not (mask & cb):
                    ok = False
                    break
            else:
                _, pb, cbs, lo, hi = r
                if mask & pb:
                    cnt = sum(1 for cb in cbs if mask & cb)
                    if cnt < lo or cnt > hi:
                        ok = False
                        break
        if ok and all(any(bool(mask & b) == pos for b, pos in c) for c in cl):
            out.add(frozenset(unquote(i) for i in ids if mask & bit[i]))
    return [unquote(i) for i in ids], out


def structure(text):
    """The feature tree the document declares, as a spec-like nested dict (names unquoted):
    ':m' -> one-child [1,1] relation, ':o' -> one-child [0,1] relation, ':g [a,b]' -> one relation with its
    members ('*' = number of members).  Independent of selections(): usable for models of any size."""
    root, ids, clauses = parse(text, with_constraints=False)

    def feat(n):
        f = {"name": unquote(n["id"]), "rels": []}
        for c in n["kids"]:
            if c["k"] == "m":
                f["rels"].append({"min": 1, "max": 1, "children": [feat(c)]})
            elif c["k"] == "o":
                f["rels"].append({"min": 0, "max": 1, "children": [feat(c)]})
            elif c["k"] == "g":
                lo, hi = c["card"]
                hi = len(c["kids"]) if hi == "*" else int(hi)
                f["rels"].append({"min": lo, "max": hi, "children": [feat(m) for m in c["kids"]]})
        return f
    return {"root": feat(root), "ctcs": []}, clauses

"""Independent interpreter of the Clafer subset the ClaferWriter emits.

Document layout: an optional 'abstract AttributedFeature' block declaring attributes ('name -> type'),
the feature hierarchy ('abstract Root' followed by tab-indented clafers), top-level constraints in
brackets, and the instance line 'CP : Root'.  A clafer line is
    [groupcard ]name[ : AttributedFeature][ ?]
with groupcard in xor (1..1) | or (1..*) | mux (0..1) | opt (0..*) | a..b; '[attr = value]' lines belong to
the clafer above them.  Clafer semantics used: a child of a clafer without group cardinality has
cardinality 1..1 unless marked '?' (0..1); children of a clafer with a group cardinality are 0..1 and the
number of present children must lie within the group cardinality; a child requires its parent.
Constraint operators: ! / not, &&, ||, xor, =>, <=> (precedence in that order, tightest first); a name in a
constraint means 'this clafer is present'.
"""
import re

LINE = re.compile(r'^(\t*)(?:(xor|or|mux|opt|\d+\.\.(?:\d+|\*)) )?("[^"\n]*"|[^\s"\[\]]+)( : AttributedFeature)?( \?)?$')
ATTR = re.compile(r'^(\t+)\[(.+?) = (.*)\]$')
TOK = re.compile(r'\s*(<=>|=>|&&|\|\||!|\(|\)|"[^"]*"|[^\s()!&|<=>]+)')


class ClaferError(ValueError):
    pass


def unq(s):
    return s[1:-1] if len(s) >= 2 and s[0] == '"' and s[-1] == '"' else s


def parse(text):
    lines = text.split("\n")
    attrs_decl = {}
    nodes = []
    constraints = []
    instance = None
    i = 0
    root = None
    stack = []
    mode = None
    while i < len(lines):
        ln = lines[i]
        i += 1
        if not ln.strip():
            continue
        if ln.startswith("abstract AttributedFeature"):
            mode = "attrs"
            continue
        if mode == "attrs" and ln.startswith("\t") and " -> " in ln:
            name, typ = ln.strip().split(" -> ", 1)
            if name in attrs_decl:
                raise ClaferError("attribute declared twice: " + name)
            attrs_decl[name] = typ
            continue
        if ln.startswith("abstract "):
            mode = "tree"
            ln = ln[len("abstract "):]
            m = LINE.match(ln)
            if not m or m.group(1):
                raise ClaferError("bad root line " + repr(ln))
            root = {"name": m.group(3), "group": m.group(2), "opt": bool(m.group(5)), "kids": [], "attrs": [],
                    "attributed": bool(m.group(4)), "d": 0}
            stack = [root]
            nodes.append(root)
            continue
        if mode == "tree" and ln.startswith("\t"):
            ma = ATTR.match(ln)
            if ma:
                d = len(ma.group(1))
                # layout rule: a line at depth d closes every open clafer at depth >= d
                while stack and stack[-1]["d"] >= d:
                    stack.pop()
                owner = stack[-1] if stack and stack[-1]["d"] == d - 1 else None
                if owner is None:
                    raise ClaferError("attribute line without owner " + repr(ln))
                owner["attrs"].append((ma.group(2), ma.group(3)))
                continue
            m = LINE.match(ln)
            if not m:
                raise ClaferError("unparseable clafer line " + repr(ln))
            d = len(m.group(1))
            while stack and stack[-1]["d"] >= d:
                stack.pop()
            if not stack or stack[-1]["d"] != d - 1:
                raise ClaferError("indentation jumps at " + repr(ln))
            node = {"name": m.group(3), "group": m.group(2), "opt": bool(m.group(5)), "kids": [], "attrs": [],
                    "attributed": bool(m.group(4)), "d": d}
            stack[-1]["kids"].append(node)
            stack.append(node)
            nodes.append(node)
            continue
        if ln.startswith("[") and ln.rstrip().endswith("]"):
            mode = "ctc"
            constraints.append(ln.strip()[1:-1])
            continue
        m = re.match(r'^CP : (.+)$', ln)
        if m:
            instance = m.group(1)
            continue
        raise ClaferError("unexpected line " + repr(ln))
    if root is None:
        raise ClaferError("no abstract root clafer")
    if instance is None or instance != root["name"]:
        raise ClaferError(f"instance line {instance!r} does not instantiate the root {root['name']!r}")
    return root, nodes, attrs_decl, constraints


def tok(s):
    out, pos = [], 0
    s = s.strip()
    while pos < len(s):
        m = TOK.match(s, pos)
        if not m:
            raise ClaferError("cannot tokenize constraint at " + repr(s[pos:]))
        out.append(m.group(1))
        pos = m.end()
    return out


class P:
    def __init__(self, toks, declared):
        self.t, self.i, self.decl = toks, 0, declared

    def peek(self):
        return self.t[self.i] if self.i < len(self.t) else None

    def eat(self, x=None):
        c = self.peek()
        if c is None or (x is not None and c != x):
            raise ClaferError(f"expected {x!r} found {c!r}")
        self.i += 1
        return c

    def iff(self):
        a = self.imp()
        while self.peek() == "<=>":
            self.eat()
            a = ("EQUIVALENCE", a, self.imp())
        return a

    def imp(self):
        a = self.disj()
        if self.peek() == "=>":
            self.eat()
            return ("IMPLIES", a, self.imp())
        return a

    def disj(self):
        a = self.xor()
        while self.peek() == "||":
            self.eat()
            a = ("OR", a, self.xor())
        return a

    def xor(self):
        a = self.conj()
        while self.peek() == "xor":
            self.eat()
            a = ("XOR", a, self.conj())
        return a

    def conj(self):
        a = self.neg()
        while self.peek() == "&&":
            self.eat()
            a = ("AND", a, self.neg())
        return a

    def neg(self):
        c = self.peek()
        if c in ("!", "not"):
            self.eat()
            return ("NOT", self.neg())
        if c == "(":
            self.eat()
            e = self.iff()
            self.eat(")")
            return e
        t = self.eat()
        if t in ("&&", "||", "=>", "<=>", ")", "xor"):
            raise ClaferError("unexpected " + t)
        if t not in self.decl:
            raise ClaferError(f"constraint uses undeclared identifier {t!r}")
        return unq(t)


def ev(f, sel):
    if isinstance(f, str):
        return f in sel
    if f[0] == "NOT":
        return not ev(f[1], sel)
    a, b = ev(f[1], sel), ev(f[2], sel)
    return {"AND": a and b, "OR": a or b, "XOR": a != b, "IMPLIES": (not a) or b, "EQUIVALENCE": a == b}[f[0]]


GROUPS = {"xor": (1, 1), "or": (1, None), "mux": (0, 1), "opt": (0, None)}


def selections(text):
    """(names, configurations as frozensets of names, info dict)."""
    root, nodes, attrs_decl, constraints = parse(text)
    declared = {n["name"] for n in nodes}
    names = [unq(n["name"]) for n in nodes]
    if len(set(names)) != len(names):
        raise ClaferError("duplicate clafer names")
    forms = []
    for c in constraints:
        p = P(tok(c), declared)
        forms.append(p.iff())
        if p.peek() is not None:
            raise ClaferError(f"unexpected token {p.peek()!r} in constraint [{c}]")
    # attributes: used spelling must be a declared spelling; attributed marker consistent
    attr_problems = []
    for n in nodes:
        if n["attrs"] and not n["attributed"]:
            attr_problems.append(f"{n['name']} has attribute lines but is not ': AttributedFeature'")
        for a, v in n["attrs"]:
            if a not in attrs_decl:
                attr_problems.append(f"attribute {a!r} used on {n['name']} but declared as {sorted(attrs_decl)}")
    bit = {unq(n["name"]): 1 << k for k, n in enumerate(nodes)}

    def gen(n):
        me = bit[unq(n["name"])]
        res = [me]
        kids = n["kids"]
        if not kids:
            return res
        kc = [gen(k) for k in kids]
        if n["group"] is None:
            for k, cfgs in zip(kids, kc):
                opts = cfgs + ([0] if k["opt"] else [])
                res = [a | b for a in res for b in opts]
            return res
        g = n["group"]
        if g in GROUPS:
            lo, hi = GROUPS[g]
        else:
            lo, hi = g.split("..")
            lo, hi = int(lo), (None if hi == "*" else int(hi))
        hi = len(kids) if hi is None else hi
        import itertools
        out = []
        for size in range(lo, min(hi, len(kids)) + 1):
            for combo in itertools.combinations(range(len(kids)), size):
                for prod in itertools.product(*[kc[i] for i in combo]):
                    m = 0
                    for p in prod:
                        m |= p
                    out.append(m)
        return [a | b for a in res for b in out]

    cfgs = set()
    for m in gen(root):
        sel = frozenset(nm for nm in names if m & bit[nm])
        if all(ev(f, sel) for f in forms):
            cfgs.add(sel)
    return names, cfgs, {"attr_problems": attr_problems, "attrs_decl": attrs_decl,
                         "attr_uses": [(unq(n["name"]), a, v) for n in nodes for a, v in n["attrs"]],
                         "constraints": constraints}


def structure(text):
    """The feature tree the document declares (any size): ungrouped children are one-child relations
    ([1,1], or [0,1] when marked '?'); a clafer with a group cardinality owns one relation with all its
    children (xor=[1,1], or=[1,k], mux=[0,1], opt=[0,k], a..b)."""
    root, nodes, attrs_decl, constraints = parse(text)

    def feat(n):
        f = {"name": unq(n["name"]), "rels": [], "attr_names": sorted(unq(a) for a, _ in n["attrs"]),
             "attributed": n["attributed"]}
        kids = n["kids"]
        if not kids:
            return f
        if n["group"] is None:
            for k in kids:
                f["rels"].append({"min": 0 if k["opt"] else 1, "max": 1, "children": [feat(k)]})
            return f
        g = n["group"]
        if g in GROUPS:
            lo, hi = GROUPS[g]
        else:
            lo, hi = g.split("..")
            lo, hi = int(lo), (None if hi == "*" else int(hi))
        hi = len(kids) if hi is None else hi
        f["rels"].append({"min": lo, "max": hi, "children": [feat(k) for k in kids]})
        return f
    return {"root": feat(root), "ctcs": []}

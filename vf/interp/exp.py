"""Independent interpreter of the propositional '.exp' export (Logic2BDD input): one formula per line,
the model is the conjunction of the lines.  Tokens: identifiers (optionally in double quotes), 'not',
'and', 'or', 'XOR', '->', '<->', parentheses.  Precedence not > and > or = XOR > -> > <->; binary
operators associate to the left ('->' to the right).  An identifier that is not a feature of the model
makes the document unparseable for the purpose of C10 (it would be a fresh free variable)."""
import re

TOK = re.compile(r'\s*(<->|->|\(|\)|"[^"]*"|[^\s()]+)')


class ExpError(ValueError):
    pass


def tokenize(line):
    out, pos = [], 0
    line = line.rstrip()
    while pos < len(line):
        m = TOK.match(line, pos)
        if not m:
            raise ExpError("cannot tokenize " + repr(line[pos:]))
        out.append(m.group(1))
        pos = m.end()
    return out


class Parser:
    def __init__(self, toks, universe):
        self.t, self.i, self.u = toks, 0, universe

    def peek(self):
        return self.t[self.i] if self.i < len(self.t) else None

    def eat(self, tok=None):
        cur = self.peek()
        if cur is None or (tok is not None and cur != tok):
            raise ExpError(f"expected {tok!r}, found {cur!r}")
        self.i += 1
        return cur

    def iff(self):
        left = self.imp()
        while self.peek() == "<->":
            self.eat()
            left = ("EQUIVALENCE", left, self.imp())
        return left

    def imp(self):
        left = self.disj()
        if self.peek() == "->":
            self.eat()
            return ("IMPLIES", left, self.imp())
        return left

    def disj(self):
        left = self.conj()
        while self.peek() in ("or", "XOR"):
            op = self.eat()
            left = ("OR" if op == "or" else "XOR", left, self.conj())
        return left

    def conj(self):
        left = self.neg()
        while self.peek() == "and":
            self.eat()
            left = ("AND", left, self.neg())
        return left

    def neg(self):
        if self.peek() == "not":
            self.eat()
            return ("NOT", self.neg())
        if self.peek() == "(":
            self.eat()
            e = self.iff()
            self.eat(")")
            return e
        tok = self.eat()
        if tok in ("and", "or", "XOR", "->", "<->", ")"):
            raise ExpError(f"unexpected {tok!r}")
        name = tok[1:-1] if tok.startswith('"') and tok.endswith('"') and len(tok) >= 2 else tok
        if name not in self.u:
            raise ExpError(f"unknown identifier {tok!r}")
        return name


def parse(text, universe):
    formulas = []
    for ln in text.split("\n"):
        if not ln.strip():
            continue
        p = Parser(tokenize(ln), universe)
        f = p.iff()
        if p.peek() is not None:
            raise ExpError(f"trailing tokens in {ln!r}")
        formulas.append(f)
    return formulas


def ev(f, mask, bit):
    if isinstance(f, str):
        return bool(mask & bit[f])
    o = f[0]
    if o == "NOT":
        return not ev(f[1], mask, bit)
    a, b = ev(f[1], mask, bit), ev(f[2], mask, bit)
    if o == "AND":
        return a and b
    if o == "OR":
        return a or b
    if o == "XOR":
        return a != b
    if o == "IMPLIES":
        return (not a) or b
    return a == b


def _flat(f, op):
    """Operands of a left/right-nested chain of one associative operator."""
    out, stack = [], [f]
    while stack:
        x = stack.pop()
        if not isinstance(x, str) and x[0] == op:
            stack.append(x[2])
            stack.append(x[1])
        else:
            out.append(x)
    return out


def compile_formula(f, bit):
    """Python source of a boolean expression over the int `m` (same meaning as ev(); AND/OR chains are
    flattened so that very long disjunctions do not nest)."""
    if isinstance(f, str):
        return f"(m & {bit[f]} != 0)"
    o = f[0]
    if o == "NOT":
        return f"(not {compile_formula(f[1], bit)})"
    if o in ("AND", "OR"):
        parts = [compile_formula(x, bit) for x in _flat(f, o)]
        return "(" + (" and " if o == "AND" else " or ").join(parts) + ")"
    a, b = compile_formula(f[1], bit), compile_formula(f[2], bit)
    if o == "XOR":
        return f"({a} != {b})"
    if o == "IMPLIES":
        return f"((not {a}) or {b})"
    return f"({a} == {b})"


def selections(text, names):
    universe = set(names)
    fs = parse(text, universe)
    bit = {n: 1 << k for k, n in enumerate(names)}
    try:
        fns = [eval("lambda m: " + compile_formula(f, bit)) for f in fs]  # noqa: S307 - harness-generated source
    except (RecursionError, MemoryError, SyntaxError):
        fns = [lambda m, f=f: ev(f, m, bit) for f in fs]
    out = set()
    for mask in range(1 << len(names)):
        if all(fn(mask) for fn in fns):
            out.add(frozenset(n for n in names if mask & bit[n]))
    return out


def mentioned(text, names):
    found = set()

    def walk(f):
        if isinstance(f, str):
            found.add(f)
        else:
            for x in f[1:]:
                walk(x)
    for f in parse(text, set(names)):
        walk(f)
    return found


def nary(f):
    """The parsed formula with every left/right-nested AND/OR chain flattened to ('AND*'|'OR*', [operands]) -
    iteratively, so that chains of 10^5 operands neither nest nor recurse."""
    # post-order with an explicit stack
    out = {}
    stack = [(f, False)]
    while stack:
        x, done = stack.pop()
        if isinstance(x, str):
            continue
        if x[0] in ("AND", "OR"):
            if not done:
                ops = _flat(x, x[0])
                stack.append((x, True))
                x_ops = ops
                out[id(x)] = x_ops
                for o in ops:
                    stack.append((o, False))
            continue
        if not done:
            stack.append((x, True))
            for o in x[1:]:
                stack.append((o, False))
    return out


def ev_nary(f, mask, bit, flat):
    if isinstance(f, str):
        return bool(mask & bit[f])
    o = f[0]
    if o == "NOT":
        return not ev_nary(f[1], mask, bit, flat)
    if o == "AND":
        for x in flat[id(f)]:
            if not ev_nary(x, mask, bit, flat):
                return False
        return True
    if o == "OR":
        for x in flat[id(f)]:
            if ev_nary(x, mask, bit, flat):
                return True
        return False
    a, b = ev_nary(f[1], mask, bit, flat), ev_nary(f[2], mask, bit, flat)
    if o == "XOR":
        return a != b
    if o == "IMPLIES":
        return (not a) or b
    return a == b


def truth_on(text, names, masks):
    """Truth value of the document (conjunction of its lines) on each of the given selections (bit i = names[i])."""
    fs = parse(text, set(names))
    bit = {n: 1 << k for k, n in enumerate(names)}
    flats = [nary(f) for f in fs]
    return [all(ev_nary(f, m, bit, fl) for f, fl in zip(fs, flats)) for m in masks]

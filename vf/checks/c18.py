"""C18 - constraint classification and splitting are semantically sound."""
import copy

from .. import spec as S
from ..acc import guard
from ..gen import formulas, rand

LEVEL = "exploration"
RULE = ("constraint trees: ALL 33399 trees over the 8 logical operators up to depth 2 over 3 names (both tiers), "
        "the 7 documented simple forms over every ordered pair of 3 names, seeded random trees of depth 3-5 over "
        "<=6 names (depth>3 without XOR/EQUIVALENCE: the dependency's CNF is exponential in their nesting), and "
        "comparison/arithmetic/aggregate trees for the kind predicates and get_features. Each tree is put in a "
        "real Constraint; every predicate, left_right_features_from_simple_constraint, split_constraint and "
        "get_features is called and judged by complete truth tables. Distinct by digest of the tree; "
        "non-trivial when the tree has an operator.")
ASSUMPTIONS = ["truth functions: REQUIRES=IMPLIES, EXCLUDES(a,b)=not(a and b), XOR=exclusive or, "
               "EQUIVALENCE=iff", "names of a constraint = its terms that are neither numbers nor quoted strings"]
ANCHORS = ["feature_model.py:Constraint.is_requires_constraint", "feature_model.py:Constraint.is_excludes_constraint",
           "feature_model.py:Constraint.is_simple_constraint", "feature_model.py:Constraint.is_complex_constraint",
           "feature_model.py:Constraint.is_pseudocomplex_constraint",
           "feature_model.py:Constraint.is_strictcomplex_constraint",
           "feature_model.py:Constraint.is_single_feature_constraint",
           "feature_model.py:Constraint.is_logical_constraint", "feature_model.py:Constraint.is_arithmetic_constraint",
           "feature_model.py:Constraint.is_aggregation_constraint", "feature_model.py:Constraint.get_features",
           "feature_model.py:left_right_features_from_simple_constraint", "feature_model.py:split_constraint",
           "feature_model.py:split_formula"]
NSHARDS = 16
W = "Constraint"


def plan(tier, seed):
    return [{"shard": i, "nshards": NSHARDS, "n_random": 1500 if tier == "quick" else 30000,
             "n_arith": 600 if tier == "quick" else 6000, "n_case": 5000 if tier == "quick" else 10 ** 9} for i in range(NSHARDS)]


def expand(t):
    """Definitional expansion of XOR / EQUIVALENCE (the 'neutral' replacement used for attribution)."""
    if not isinstance(t, list):
        return t
    k = [expand(x) for x in t[1:]]
    if t[0] == "XOR":
        return ["OR", ["AND", k[0], ["NOT", k[1]]], ["AND", ["NOT", k[0]], k[1]]]
    if t[0] == "EQUIVALENCE":
        return ["AND", ["IMPLIES", k[0], k[1]], ["IMPLIES", k[1], k[0]]]
    return [t[0]] + k


def dep_tags(t):
    ops = set(S.ast_ops(t))
    return sorted({"ctc:XOR"} & {"ctc:" + o for o in ops} | {"ctc:EQUIVALENCE"} & {"ctc:" + o for o in ops})


def arith_tree(r):
    names = ["A", "B", "Cc"]
    def term():
        x = r.random()
        if x < 0.4:
            return r.choice(names) + "." + r.choice(["cost", "w1"])
        if x < 0.6:
            return r.choice([0, 1, 7, 2.5, 100])
        if x < 0.7:
            return "'" + r.choice(["red", "x y"]) + "'"
        if x < 0.85:
            ag = r.choice(S.AGGR)
            if ag in ("SUM", "AVG"):
                return [ag, r.choice(["cost", "w1"]), r.choice(names)] if r.random() < 0.7 else [ag, r.choice(["cost", "w1"])]
            return [ag, r.choice(names) + "." + r.choice(["cost", "w1"])]
        return [r.choice(S.ARITH), term(), term()]
    cmp_ = [r.choice(S.COMPARE), term(), term()]
    x = r.random()
    if x < 0.5:
        return cmp_
    if x < 0.7:
        return ["NOT", cmp_]
    return [r.choice(S.BINLOG), cmp_, r.choice(names) if r.random() < 0.5 else [r.choice(S.COMPARE), term(), term()]]


def cases(desc):
    i, n, seed = desc["shard"], desc["nshards"], desc["seed"]
    idx = 0
    for t in formulas.formulas(2):
        idx += 1
        if idx % n == i:
            yield "enum-depth<=2", t
    # the same enumeration over three names two of which differ only in letter case (distinct names!)
    cc = formulas.formulas(2, ("Cache", "cache", "Log"))
    if len(cc) > desc.get("n_case", 10 ** 9):
        cc = rand.rng(seed, "c18cc").sample(cc, desc["n_case"])
    for k, t in enumerate(cc):
        if k % n == i:
            yield "enum-case-colliding-names", t
    # names that collide with the literal encoding of a negation ('-A' is a legal feature name)
    dd = formulas.formulas(2, ("A", "-A", "B"))
    if len(dd) > desc.get("n_case", 10 ** 9):
        dd = rand.rng(seed, "c18dd").sample(dd, desc["n_case"])
    for k, t in enumerate(dd):
        if k % n == i:
            yield "enum-dash-names", t
    if i == 0:
        for name, (mk, kind) in formulas.SIMPLE_FORMS.items():
            for a in "ABC":
                for b in "ABC":
                    if a != b:
                        yield "simple-form:" + name, mk(a, b)
    for j in range(desc["n_random"]):
        if j % n == i:
            r = rand.rng(seed, "c18", j)
            names = ["A", "B", "C", "D", "E", "F"][: r.randint(2, 6)]
            if r.random() < 0.5:
                yield "random-depth3", rand.rand_formula(r, names, 3)
            else:
                yield "random-deep-noxor", rand.rand_formula(r, names, r.randint(3, 5),
                                                             ops=("AND", "OR", "NOT", "IMPLIES", "REQUIRES", "EXCLUDES"))
    for j in range(desc["n_arith"]):
        if j % n == i:
            yield "arith-aggr", arith_tree(rand.rng(seed, "c18a", j))


def judge(acc, cls, t, payload):
    from flamapy.core.models.ast import AST
    from flamapy.metamodels.fm_metamodel.models import Constraint
    from flamapy.metamodels.fm_metamodel.models import feature_model as FM
    key = S.digest(t) if isinstance(t, list) else None
    c = Constraint("T", AST(S.build_ast(t)))
    snap0 = S.snapshot_ast(c.ast)
    fails = []   # (clause, tags, symptom, detail)
    logical = S.is_logical_ast(t)
    deps = dep_tags(t)

    def call(name, fn):
        try:
            return True, fn()
        except Exception as e:  # noqa: BLE001
            fails.append(("no-exception", [], f"raises:{type(e).__name__}", f"{name}: {type(e).__name__}: {e}"))
            return False, None

    P = {}
    for m in ("is_logical_constraint", "is_arithmetic_constraint", "is_aggregation_constraint",
              "is_single_feature_constraint", "is_simple_constraint", "is_complex_constraint",
              "is_requires_constraint", "is_excludes_constraint", "is_pseudocomplex_constraint",
              "is_strictcomplex_constraint"):
        ok, v = call(m, getattr(c, m))
        if ok:
            P[m] = v
            if not isinstance(v, bool):
                fails.append(("predicate-returns-bool", [], "wrong-type", f"{m} -> {v!r}"))
    ops = S.ast_ops(t)
    want_kind = {"is_logical_constraint": all(o in S.LOGICAL for o in ops),
                 "is_arithmetic_constraint": any(o in S.ARITH + S.COMPARE for o in ops),
                 "is_aggregation_constraint": any(o in S.AGGR for o in ops)}
    for m, w in want_kind.items():
        if m in P and P[m] != w:
            fails.append(("kind-report", [], "wrong-kind", f"{m} = {P[m]}, expected {w} for {t}"))
    # ---- names
    ok, feats = call("get_features", c.get_features)
    if ok:
        if sorted(set(feats)) != sorted(S.ast_names(t)) or len(feats) != len(set(feats)):
            fails.append(("features-are-names", [], "wrong-names", f"{sorted(feats)} != {sorted(S.ast_names(t))}"))
    if logical:
        # ---- requires / excludes semantics
        for m, mk in (("is_requires_constraint", lambda l, r: ["IMPLIES", l, r]),
                      ("is_excludes_constraint", lambda l, r: ["NOT", ["AND", l, r]])):
            if P.get(m):
                ok, lr = call("left_right_features_from_simple_constraint",
                              lambda: FM.left_right_features_from_simple_constraint(c))
                if ok:
                    l, r = lr
                    if not (isinstance(l, str) and isinstance(r, str)) or S.equivalent(t, mk(l, r)) is not True:
                        fails.append((m.replace("is_", "").replace("_constraint", "") + "-semantics", [],
                                      "not-equivalent", f"{t} reported {m} with (l,r)=({l!r},{r!r})"))
        # ---- documented simple forms
        if cls.startswith("simple-form"):
            kind = formulas.SIMPLE_FORMS[cls.split(":", 1)[1]][1]
            if not P.get("is_simple_constraint") or not P.get(f"is_{kind}_constraint"):
                fails.append(("simple-form-recognised", [], "not-recognised", f"{t} ({cls}) not reported {kind}"))
        # ---- mutual consistency
        if all(k in P for k in ("is_simple_constraint", "is_complex_constraint", "is_pseudocomplex_constraint",
                                "is_strictcomplex_constraint", "is_requires_constraint", "is_excludes_constraint")):
            s, cx, ps, st = (P["is_simple_constraint"], P["is_complex_constraint"],
                             P["is_pseudocomplex_constraint"], P["is_strictcomplex_constraint"])
            if s != (P["is_requires_constraint"] or P["is_excludes_constraint"]):
                fails.append(("consistency", [], "inconsistent", f"simple={s} but requires/excludes={P['is_requires_constraint']}/{P['is_excludes_constraint']}"))
            if cx != (not s):
                fails.append(("consistency", [], "inconsistent", f"logical constraint with simple={s} complex={cx}"))
            if cx and (ps == st):
                fails.append(("complex-exactly-one-of-pseudo-strict", [], "inconsistent",
                              f"{t}: complex with pseudo={ps} strict={st}"))
            if (ps or st) and not cx:
                fails.append(("consistency", [], "inconsistent", f"{t}: pseudo={ps} strict={st} but complex={cx}"))
            if "is_single_feature_constraint" in P:
                want_single = (not isinstance(t, list)) or (t[0] == "NOT" and not isinstance(t[1], list))
                if P["is_single_feature_constraint"] != want_single:
                    fails.append(("single-feature", [], "wrong-kind", f"{t}: single={P['is_single_feature_constraint']}"))
                if P["is_single_feature_constraint"] and s:
                    fails.append(("consistency", [], "inconsistent", f"{t}: single-feature and simple"))
        # ---- splitting
        ok, parts = call("split_constraint", lambda: FM.split_constraint(c))
        if ok:
            asts = [S.obs_ast(p.ast.root) for p in parts]
            if not parts or not all(S.wellformed_ast(a) and S.is_logical_ast(a) for a in asts):
                fails.append(("split-equivalent", deps, "malformed-split", f"{t} -> {asts}"))
            else:
                if S.equivalent_conj(t, asts) is not True:
                    # attribution: with XOR/EQUIVALENCE expanded by definition the split must hold
                    tags = []
                    if deps:
                        c2 = Constraint("T", AST(S.build_ast(expand(t))))
                        try:
                            a2 = [S.obs_ast(p.ast.root) for p in FM.split_constraint(c2)]
                            if S.equivalent_conj(t, a2) is True:
                                tags = deps
                        except Exception:  # noqa: BLE001
                            tags = []
                    fails.append(("split-equivalent", tags, "not-equivalent", f"{t} -> {asts}"))
            names = [p.name for p in parts]
            if len(set(names)) != len(names):
                fails.append(("split-names-distinct", [], "duplicate-names", f"{names}"))
    else:
        if "is_simple_constraint" in P and P["is_simple_constraint"]:
            fails.append(("consistency", [], "inconsistent", f"non-logical {t} reported simple"))
        if P.get("is_complex_constraint") or P.get("is_pseudocomplex_constraint") or P.get("is_strictcomplex_constraint"):
            fails.append(("consistency", [], "inconsistent", f"non-logical {t} reported complex/pseudo/strict"))
    if S.snapshot_ast(c.ast) != snap0:
        fails.append(("constraint-unchanged", [], "mutated", f"{t} -> {S.obs_ast(c.ast.root)}"))
    if fails:
        seen = set()
        for clause, tags, sym, detail in fails:
            if (clause, sym) in seen:
                continue
            seen.add((clause, sym))
            acc.fail(cls.split(":")[0], clause, W, tags, sym, detail, payload, key)
    else:
        acc.held(cls.split(":")[0], key)
    acc.count("truth-tables")


def history_setter(acc, t1, t2):
    """History on ONE Constraint object: query everything, replace the formula through the public `ast`
    setter, query again at once (no other constraint in between): the answers must be those of a fresh
    Constraint built from the new formula."""
    from flamapy.core.models.ast import AST
    from flamapy.metamodels.fm_metamodel.models import Constraint
    from flamapy.metamodels.fm_metamodel.models import feature_model as FM
    Q = ("is_logical_constraint", "is_single_feature_constraint", "is_simple_constraint", "is_complex_constraint",
         "is_requires_constraint", "is_excludes_constraint", "is_pseudocomplex_constraint", "is_strictcomplex_constraint")

    def answers(c):
        out = {m: getattr(c, m)() for m in Q}
        out["features"] = sorted(c.get_features())
        out["split"] = [S.obs_ast(p.ast.root) for p in FM.split_constraint(c)]
        return out
    payload = {"cls": "history:ast-setter", "ast": t2, "before": t1}
    try:
        c = Constraint("T", AST(S.build_ast(t1)))
        answers(c)
        c.ast = AST(S.build_ast(t2))
        got = answers(c)
        want = answers(Constraint("T", AST(S.build_ast(t2))))
        if got == want:
            # second kind of edit: node attributes assigned directly (same AST object, no setter)
            import random as _random
            c = Constraint("T", AST(S.build_ast(t1)))
            answers(c)
            t3 = S.inplace_edit_ast(c.ast, t1, _random.Random(S.digest([t1, t2])), sorted(S.ast_names(t1) | S.ast_names(t2)),
                                    ("AND", "OR", "IMPLIES", "REQUIRES"))
            if t3 is not None:
                got = answers(c)
                want = answers(Constraint("T", AST(S.build_ast(t3))))
                t2 = t3
                payload = {"cls": "history:ast-setter", "ast": t3, "before": t1, "kind": "node edited in place"}
    except Exception as e:  # noqa: BLE001
        acc.fail("history:ast-setter", "no-exception", W, [], f"raises:{type(e).__name__}", str(e)[:200], payload)
        return
    if got != want:
        bad = [k for k in want if got[k] != want[k]]
        acc.fail("history:ast-setter", "history:answers-follow-the-current-formula", W, [], "stale-answer",
                 f"after replacing {t1} by {t2}: {bad} differ from a fresh constraint ({got[bad[0]]!r} vs {want[bad[0]]!r})",
                 payload, S.digest([t1, t2]))
    else:
        acc.held("history:ast-setter", S.digest([t1, t2]))


def known_answers(acc, desc):
    """Constraints whose classification is known by construction, at sizes no enumeration reaches:
    (A1|..|An) => (B1&..&Bm) and (A1|..|An) excludes (B1|..|Bm) are conjunctions of n*m requires / excludes
    constraints (pseudo-complex); a disjunction of three or more features is one clause that is no simple
    constraint (strict-complex)."""
    from flamapy.core.models.ast import AST
    from flamapy.metamodels.fm_metamodel.models import Constraint

    def chain(op, xs):
        t = xs[0]
        for x in xs[1:]:
            t = [op, t, x]
        return t
    cases_ = []
    for n, m in ((2, 2), (3, 5), (8, 8), (20, 20), (33, 32), (40, 30)):
        a, b = [f"A{q}" for q in range(n)], [f"B{q}" for q in range(m)]
        cases_.append((f"pseudo:{n}x{m}:or-implies-and", ["IMPLIES", chain("OR", a), chain("AND", b)], True))
        cases_.append((f"pseudo:{n}x{m}:or-excludes-or", ["EXCLUDES", chain("OR", a), chain("OR", b)], True))
        cases_.append((f"strict:{n + m}:wide-clause", chain("OR", a + b) if n + m >= 3 else ["OR", ["OR", "A0", "B0"], "C0"], False))
    for k, (name, t, pseudo) in enumerate(cases_):
        if k % desc["nshards"] != desc["shard"]:
            continue
        payload = {"cls": "known-answer", "ast": t if len(S.ast_names(t)) <= 20 else None, "name": name}
        try:
            c = Constraint("K", AST(S.build_ast(t)))
            got = (c.is_complex_constraint(), c.is_pseudocomplex_constraint(), c.is_strictcomplex_constraint())
        except Exception as e:  # noqa: BLE001
            acc.fail("known-answer", "no-exception", W, [], f"raises:{type(e).__name__}", f"{name}: {e}"[:200], payload)
            continue
        want = (True, pseudo, not pseudo)
        if got != want:
            acc.fail("known-answer", "classification-by-construction", W, [], "wrong-kind",
                     f"{name}: (complex, pseudo, strict) = {got}, by construction {want}", payload, S.digest(name))
        else:
            acc.held("known-answer", S.digest(name))


def run_shard(desc, acc):
    known_answers(acc, desc)
    prev = None
    for k, (cls, t) in enumerate(cases(desc)):
        judge(acc, cls, t, {"cls": cls, "ast": t})
        if prev is not None and k % 7 == 0 and S.is_logical_ast(t) and S.is_logical_ast(prev) and isinstance(t, list):
            history_setter(acc, prev, t)
        prev = t
        if len(acc.samples) < 4 and cls.startswith("random"):
            acc.sample({"class": cls, "ast": t})


def replay(payload, acc):
    if payload.get("cls") == "known-answer":
        known_answers(acc, {"nshards": 1, "shard": 0})
        return
    if payload.get("cls") == "history:ast-setter":
        history_setter(acc, payload["before"], payload["ast"])
        return
    judge(acc, payload["cls"], payload["ast"], payload)

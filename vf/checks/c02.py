"""C02 - every reader returns a well-formed feature tree with usable constraints."""
import contextlib
import io
import os
import shutil
import tempfile

from .. import spec as S, corpus
from ..gen import inject, rand
from ..emit import uvl as EU, thirdparty as TP
from ..monitors import wf
from . import roundtrip as RT, c04, c09

LEVEL = "exploration"
RULE = ("documents accepted by the six readers: (i) library-written documents = base + 1-4 injections of each "
        "format's fragment written by the format's own writer (UVL, AFM, JSON, Glencoe, FeatureIDE); (ii) "
        "independently emitted documents = the reference emitters of C04 (UVL) and C09 (FeatureIDE, FaMa, AFM, "
        "Glencoe) with random surface knobs, and the shipped FaMa corpus (quick <=500 features). On every returned "
        "model: the well-formedness walker (single parentless root, each feature reached once by identity, "
        "relation/child/attribute back pointers, non-empty relations, AST node shapes, get_features == names), and "
        "a traversal by every operation and every writer able to express the model (shape errors = "
        "AttributeError/TypeError/UnboundLocalError/KeyError). Distinct by document digest.")
ASSUMPTIONS = ["AST convention: a term whose text starts with an apostrophe is a string literal, not a name",
               "a reader that rejects a document (raises) returns no model and is outside this property (C04/C09 "
               "judge rejections)"]
ANCHORS = ["uvl_reader.py:UVLReader.transform", "afm_reader.py:AFMReader.transform", "json_reader.py:JSONReader.transform",
           "glencoe_reader.py:GlencoeReader.transform", "featureide_reader.py:FeatureIDEReader.transform",
           "xml_reader.py:XMLReader.transform", "feature_model.py:Feature.add_relation",
           "feature_model.py:Feature.add_attribute", "afm_reader.py:AFMReader.build_ast_node",
           "featureide_reader.py:FeatureIDEReader._parse_rule", "glencoe_reader.py:GlencoeReader._parse_ast_constraint",
           "json_reader.py:parse_ast_constraint", "uvl_reader.py:UVLReader.process_constraints",
           "feature_model.py:Constraint.get_features"]
NSHARDS = 16
CONTRACTS = ('readers',)   # ambient icontract contracts active in every shard of this check
SHAPE_ERRORS = (AttributeError, TypeError, UnboundLocalError, KeyError, IndexError)


def plan(tier, seed):
    return [{"shard": i, "nshards": NSHARDS, "n_lib": 12 if tier == "quick" else 150,
             "n_emit": 12 if tier == "quick" else 150, "n_uvl": 10 if tier == "quick" else 120,
             "corpus_max": 500 if tier == "quick" else 10 ** 9} for i in range(NSHARDS)]


def consumers(model):
    """(name, callable) for every operation and writer that can express this model."""
    from flamapy.metamodels.fm_metamodel import operations as O, transformations as T
    from flamapy.metamodels.fm_metamodel.transformations.pl_writer import PLWriter
    out = []
    for name in ("FMAtomicSets", "FMAverageBranchingFactor", "FMCoreFeatures", "FMCountLeafs",
                 "FMEstimatedConfigurationsNumber", "FMLeafFeatures", "FMMaxDepthTree", "FMMetrics", "FMVariationPoints"):
        out.append((name, lambda n=name: getattr(O, n)().execute(model).get_result()))
    out.append(("str(model)", lambda: str(model)))
    out.append(("ctc-ast-queries", lambda: [(str(c), c.ast.pretty_str(), c.ast.get_operators(), c.ast.get_operands(),
                                             c.is_logical_constraint(), c.is_simple_constraint()) for c in model.ctcs]))
    ops = set()
    for c in model.ctcs:
        try:
            ops |= {o.name for o in c.ast.get_operators()}
        except Exception:  # noqa: BLE001
            pass
    logical = ops <= set(S.LOGICAL)
    out.append(("JSONWriter", lambda: T.JSONWriter(None, model).transform()))
    if "XOR" not in ops:
        out.append(("UVLWriter", lambda: T.UVLWriter(None, model).transform()))
    if logical:
        out.append(("PLWriter", lambda: PLWriter(None, model).transform()))
        out.append(("SPLOTWriter", lambda: T.SPLOTWriter(None, model).transform()))
        out.append(("GlencoeWriter", lambda: T.GlencoeWriter(None, model).transform()))
        out.append(("ClaferWriter", lambda: T.ClaferWriter(None, model).transform()))
        out.append(("FeatureIDEWriter", lambda: T.FeatureIDEWriter(None, model).transform()))
        if not any(a for f in model.get_features() for a in f.attributes):
            out.append(("AFMWriter", lambda: T.AFMWriter(None, model).transform()))
    return out


class ConsumerTooSlow(Exception):
    pass


class watchdog:
    """Generous wall-clock watchdog around one consumer call (SIGALRM in the shard's main thread); its firing
    means 'skipped', never 'violated'."""
    def __init__(self, seconds):
        self.seconds = seconds

    def __enter__(self):
        import signal

        def onalarm(signum, frame):
            raise ConsumerTooSlow()
        self.old = signal.signal(signal.SIGALRM, onalarm)
        signal.alarm(self.seconds)

    def __exit__(self, *a):
        import signal
        signal.alarm(0)
        signal.signal(signal.SIGALRM, self.old)
        return False


def judge_model(acc, cls, where, model, payload, key):
    probs, (nf, nr, na) = wf.problems(model)
    acc.count("features-walked", nf)
    acc.count("relations-walked", nr)
    acc.count("attributes-walked", na)
    acc.count("constraints-walked", len(model.ctcs))
    if probs:
        acc.fail(cls, "well-formed", where, [], "not-wellformed", "; ".join(probs[:3]), payload, key)
        return
    before = S.snapshot_or_none(model)
    bad_dep = False
    for name, fn in consumers(model):
        try:
            with watchdog(30):
                fn()
            acc.count("traversals")
        except ConsumerTooSlow:
            # watchdog only: the dependency's CNF conversion is exponential for some formulas; not a verdict
            acc.count("consumer-skipped-by-watchdog:" + name)
        except SHAPE_ERRORS as e:
            tags = []
            tb = e.__traceback__
            while tb.tb_next is not None:
                tb = tb.tb_next
            inner = tb.tb_frame.f_code
            if inner.co_name == "pretty_str" and "flamapy/core/models/ast.py" in inner.co_filename and one_arg_aggregate(model):
                # dependency: Node.pretty_str leaves `res` unbound for an aggregate with a single operand
                tags = ["ctc:aggregate-1arg"]
                bad_dep = True
            elif inner.co_name in ("get_clauses", "get_clause_from_or_node") and "flamapy/core/models/ast.py" in inner.co_filename:
                # dependency: simplify_formula mishandles XOR/EQUIVALENCE, the CNF is malformed and get_clauses
                # meets an operator where it expects a literal (see C10/C18 findings)
                ops = set()
                for c in model.ctcs:
                    ops |= {o.name for o in c.ast.get_operators()}
                tags = sorted({"ctc:XOR", "ctc:EQUIVALENCE"} & {"ctc:" + o for o in ops})
                bad_dep = bool(tags)
            acc.fail(cls, "usable-by-every-consumer", where, tags, f"raises:{type(e).__name__}@core.{inner.co_name}" if tags
                     else f"{name}:raises:{type(e).__name__}", f"{name}: {type(e).__name__}: {str(e)[:150]}", payload, key)
            if not tags:
                return
        except RecursionError:
            acc.count("traversal-skipped(recursion-depth)")
        except Exception:  # noqa: BLE001 - other errors (e.g. attribute without domain for AFM) are not shape errors
            acc.count("consumer-raised-non-shape-error:" + name)
    if before is not None and S.snapshot_or_none(model) != before:
        acc.count("model-changed-by-a-consumer(see C12/C19)")
    if not bad_dep:
        acc.held(cls, key)


def one_arg_aggregate(model):
    for c in model.ctcs:
        stack = [c.ast.root]
        while stack:
            n = stack.pop()
            if n is None:
                continue
            if n.is_op() and n.data.name in S.AGGR and n.right is None:
                return True
            stack.extend([n.left, n.right])
    return False


def read_doc(acc, cls, reader, path, payload, key, allow_reject=True, expected=None):
    from flamapy.metamodels.fm_metamodel import transformations as T
    R = getattr(T, reader)
    err = io.StringIO()
    try:
        with contextlib.redirect_stderr(err):
            m = R(path).transform()
    except Exception:  # noqa: BLE001
        acc.count("document-rejected-by-reader:" + reader)
        return
    if int(S.digest(key)[:6], 16) % 5 == 0:
        # the same reader object asked again: the second model is judged too
        try:
            rd = R(path)
            with contextlib.redirect_stderr(io.StringIO()):
                rd.transform()
                m_again = rd.transform()
            judge_model(acc, cls + "|second-transform-on-one-reader", reader, m_again, payload, S.digest([key, "again"]))
        except Exception as e:  # noqa: BLE001
            acc.fail(cls + "|second-transform-on-one-reader", "document-accepted-again", reader, [], f"raises:{type(e).__name__}",
                     f"second transform() on one reader: {type(e).__name__}: {str(e)[:120]}", payload, S.digest([key, "again"]))
    if expected is not None and len(expected.get("ctcs", [])) == len(m.ctcs):
        # "asking a constraint for its features returns exactly the feature names written in it": the names
        # written in the DOCUMENT (known from the reference spec it was emitted from)
        for c0, c1 in zip(expected["ctcs"], m.ctcs):
            try:
                got = set(c1.get_features())
            except Exception:  # noqa: BLE001 - judged by the walker below
                break
            if got != S.ast_names(c0["ast"]):
                acc.fail(cls, "features-are-the-names-written", reader, [], "names-differ",
                         f"document writes {sorted(S.ast_names(c0['ast']))[:6]}, get_features gives {sorted(got)[:6]}", payload, key)
                return
    judge_model(acc, cls, reader, m, payload, key)


def run_shard(desc, acc):
    if desc.get("shard") == 0:
        from ..contracts_run import run_pinned_tests
        run_pinned_tests(acc, ('reader-wellformed',))
    seed, i, n = desc["seed"], desc["shard"], desc["nshards"]
    work = tempfile.mkdtemp(prefix="vf-c02-")
    try:
        idx = 0
        # (i) library-written documents
        for fname, fmt in RT.FORMATS.items():
            W, R = fmt.rw()
            # (long XOR chains are left to the round-trip checks: the consumers run here include the dependency's
            # CNF conversion, which is exponential in them)
            cl = [c for c in fmt.classes() if c[0] not in ("ctc:chain7-20", "ctc:chain17-70", "ctc:wide11-15")]
            cl.append(("ctc:and-or-chain", inject.inj_ctc_chain(("AND", "OR"), (7, 40))))
            for j in range(desc["n_lib"]):
                r = rand.rng(seed, "c02lib", fname, i, j)
                spec, tags = inject.apply(inject.base(r), r.sample(cl, r.randint(1, 4)), r)
                idx += 1
                path = os.path.join(work, f"l{idx}.{fmt.ext}")
                try:
                    W(path, S.build(spec)).transform()
                except Exception:  # noqa: BLE001
                    acc.count("writer-failed(C01/C05-C08 judge this):" + fname)
                    continue
                read_doc(acc, f"library-written|{R.__name__}", R.__name__, path,
                         {"kind": "lib", "fmt": fname, "spec": spec, "tags": tags}, S.digest([fname, spec]))
        # (ii) independently emitted documents
        cl4 = c04.classes()
        for j in range(desc["n_uvl"]):
            r = rand.rng(seed, "c02uvl", i, j)
            spec, tags = inject.apply(inject.base(r, 4, 10), r.sample(cl4, r.randint(1, 4)), r)
            spec = c04.fix_ctcs(spec)
            if any('"' in nm or "." in nm or "\n" in nm for nm in S.feature_names(spec)):
                continue
            knobs, ch = c04.make_knobs(r)
            try:
                text = EU.emit(spec, knobs)
            except ValueError:
                continue
            if EU.strict_errors(text):
                continue
            idx += 1
            path = os.path.join(work, f"e{idx}.uvl")
            with open(path, "w", encoding="utf-8") as fh:
                fh.write(text)
            read_doc(acc, "emitted|UVLReader", "UVLReader", path, {"kind": "doc", "reader": "UVLReader", "ext": "uvl",
                                                                    "text": text}, S.digest(text))
        for fmt in ("fide", "fama", "afm", "glencoe"):
            cl = [c for c in c09.spec_classes(fmt) if "very-long" not in c[0]]   # (C09 judges those; consumers here are slow on them)
            for j in range(desc["n_emit"]):
                r = rand.rng(seed, "c02emit", fmt, i, j)
                spec, tags = inject.apply(inject.base(r, 4, 12), r.sample(cl, r.randint(1, 4)), r)
                spec = c09.fix_spec(fmt, spec)
                if fmt == "afm" and any(not (nm[:1].isupper() and nm.isalnum() and nm.isascii()) for nm in S.feature_names(spec)):
                    continue
                knobs = {k for k in c09.KNOBS[fmt] if r.random() < 0.35}
                text, exp = c09.EMIT[fmt](spec, r, knobs)
                if text is None:
                    continue
                idx += 1
                reader, ext = c09.READERS[fmt]
                path = os.path.join(work, f"e{idx}.{ext}")
                with open(path, "w", encoding="utf-8") as fh:
                    fh.write(text)
                read_doc(acc, f"emitted|{reader}", reader, path, {"kind": "doc", "reader": reader, "ext": ext, "text": text},
                         S.digest(text), expected=exp)
        # the library's own JSON format written by another producer (n-ary operand lists of any length)
        clj = [c for c in RT.FORMATS["json"].classes() if c[0] not in ("ctc:chain7-20", "ctc:chain17-70", "ctc:wide11-15")]
        clj.append(("ctc:chain16-70", inject.inj_ctc_chain(("AND", "OR"), (15, 70), distinct=True)))
        for j in range(desc["n_emit"]):
            r = rand.rng(seed, "c02json", i, j)
            spec, tags = inject.apply(inject.base(r, 4, 12), r.sample(clj, r.randint(1, 4)) + ([clj[-1]] if j % 3 == 0 else []), r)
            knobs = {k for k in ("nary", "key-order", "compact", "no-expr") if r.random() < 0.5} | ({"nary"} if j % 3 == 0 else set())
            text, exp = TP.fm_json(spec, r, knobs)
            idx += 1
            path = os.path.join(work, f"j{idx}.json")
            with open(path, "w", encoding="utf-8") as fh:
                fh.write(text)
            from flamapy.metamodels.fm_metamodel.transformations import JSONReader
            try:
                mj = JSONReader(path).transform()
            except Exception:  # noqa: BLE001
                acc.count("document-rejected-by-reader:JSONReader")
                continue
            payload = {"kind": "doc", "reader": "JSONReader", "ext": "json", "text": text}
            # the names a constraint reports are the names written in the document's operand lists
            bad = None
            for c0, c1 in zip(exp["ctcs"], mj.ctcs):
                try:
                    got = set(c1.get_features())
                except Exception as e:  # noqa: BLE001
                    bad = f"get_features raises {type(e).__name__}"
                    break
                if got != S.ast_names(c0["ast"]):
                    bad = f"constraint {c0['name']!r}: get_features gives {len(got)} names, the document writes {len(S.ast_names(c0['ast']))}: missing {sorted(S.ast_names(c0['ast']) - got)[:4]}"
                    break
            if bad or len(exp["ctcs"]) != len(mj.ctcs):
                acc.fail("emitted|JSONReader", "features-are-the-names-written", "JSONReader", [], "names-differ",
                         bad or "constraint count differs", payload, S.digest(text))
                continue
            judge_model(acc, "emitted|JSONReader", "JSONReader", mj, payload, S.digest(text))
            # second public entry point: the already decoded document is handed to parse_json, more than once
            # (an application that keeps the decoded document); every model returned is judged like the first
            if j % 2 == 0:
                import json as _json
                doc = _json.loads(text)
                for turn in (1, 2, 3):
                    clsj = f"emitted|JSONReader.parse_json|call-{turn}-on-one-decoded-document"
                    try:
                        mk = JSONReader.parse_json(doc)
                    except Exception as e:  # noqa: BLE001
                        if turn > 1:
                            acc.fail(clsj, "document-accepted-again", "JSONReader.parse_json", [], f"raises:{type(e).__name__}",
                                     f"call {turn} on the same decoded document: {type(e).__name__}: {str(e)[:120]}", payload,
                                     S.digest([text, turn]))
                        break
                    bad = None
                    for c0, c1 in zip(exp["ctcs"], mk.ctcs):
                        try:
                            got = set(c1.get_features())
                        except Exception as e:  # noqa: BLE001
                            bad = f"get_features raises {type(e).__name__}"
                            break
                        if got != S.ast_names(c0["ast"]):
                            bad = (f"call {turn}: constraint {c0['name']!r}: get_features gives {sorted(got)[:5]}, the document "
                                   f"writes {sorted(S.ast_names(c0['ast']))[:5]}")
                            break
                    if bad or len(exp["ctcs"]) != len(mk.ctcs):
                        acc.fail(clsj, "features-are-the-names-written", "JSONReader.parse_json", [], "names-differ",
                                 bad or "constraint count differs", payload, S.digest([text, turn]))
                        break
                    judge_model(acc, clsj, "JSONReader.parse_json", mk, payload, S.digest([text, turn]))
        files = [(p, s) for p, s in corpus.fama_files() if (s or 0) <= desc["corpus_max"]]
        for j, (p, s) in enumerate(files):
            if j % n == i:
                read_doc(acc, "corpus|XMLReader", "XMLReader", os.path.join(corpus.MODELS, p), {"kind": "corpus", "path": p},
                         S.digest(p))
        if len(acc.samples) < 2:
            acc.sample({"readers": sorted({c for c in acc.classes}), "consumers": [n for n, _ in consumers(S.build(
                {"root": {"name": "A", "rels": []}, "ctcs": []}))]})
    finally:
        shutil.rmtree(work, ignore_errors=True)


def replay(payload, acc):
    work = tempfile.mkdtemp(prefix="vf-c02r-")
    try:
        if payload["kind"] == "corpus":
            read_doc(acc, "replay", "XMLReader", os.path.join(corpus.MODELS, payload["path"]), payload, None)
        elif payload["kind"] == "doc":
            path = os.path.join(work, "r." + payload["ext"])
            with open(path, "w", encoding="utf-8") as fh:
                fh.write(payload["text"])
            read_doc(acc, "replay", payload["reader"], path, payload, None)
        else:
            fmt = RT.FORMATS[payload["fmt"]]
            W, R = fmt.rw()
            path = os.path.join(work, "r." + fmt.ext)
            W(path, S.build(payload["spec"])).transform()
            read_doc(acc, "replay", R.__name__, path, payload, None)
    finally:
        shutil.rmtree(work, ignore_errors=True)

"""C12 - serialisation is pure, deterministic, returns what it wrote, and is UTF-8 in and out."""
import itertools
import json
import os
import subprocess
import tempfile

from .. import env, spec as S
from ..gen import inject, rand
from . import roundtrip as RT
from .c11 import in_fragment as clafer_fragment

LEVEL = "exploration"
RULE = ("a shared, seeded set of models (plain Boolean models with many multi-child groups for all eight writers; "
        "per-format models = base + 2-4 injections of that format's fragment incl. non-ASCII names) is serialised "
        "by every applicable writer inside E fresh interpreter processes, one per environment (E=16 quick / 48 "
        "thorough: PYTHONHASHSEED x LC_ALL x PYTHONUTF8 x PYTHONIOENCODING, started with -X dev -X "
        "warn_default_encoding). In each process: purity window (deep snapshot + write barrier), audit-hook "
        "window (exactly one write-open, on the destination), return value vs file bytes, path=None, repeated "
        "call and rebuilt-object outputs, UTF-8 decoding and presence of non-ASCII names, the matching reader "
        "reading the names back, Encoding/ResourceWarning from repo frames. Offline trace checker: one output "
        "digest per (writer, model) across all processes. A case = (writer, model, environment); distinct by "
        "that triple; non-trivial always (every model has >=6 features).")
ASSUMPTIONS = ["only the locales installed in the sandbox can be sampled: C, POSIX, C.utf8",
               "AFM is exercised with ASCII names only (the AFM WORD token is ASCII)"]
ANCHORS = ["uvl_writer.py:UVLWriter.transform", "afm_writer.py:AFMWriter.transform", "json_writer.py:JSONWriter.transform",
           "glencoe_writer.py:GlencoeWriter.transform", "featureide_writer.py:FeatureIDEWriter.transform",
           "splot_writer.py:SPLOTWriter.transform", "clafer_writer.py:ClaferWriter.transform",
           "pl_writer.py:PLWriter.transform", "uvl_reader.py:UVLReader.set_parse_tree",
           "afm_reader.py:AFMReader.set_parse_tree"]
HASHSEEDS = ["0", "1", "2", "3", "7", "42", "12345", "random"]
LOCALES = [{"LC_ALL": "C", "PYTHONUTF8": "0"}, {"LC_ALL": "POSIX", "PYTHONUTF8": "0"}, {"LC_ALL": "C.utf8"},
           {"LC_ALL": "C", "PYTHONUTF8": "1"}, {"LC_ALL": "C", "PYTHONUTF8": "0", "PYTHONIOENCODING": "latin-1"},
           {"LC_ALL": "C.utf8", "PYTHONUTF8": "0", "PYTHONIOENCODING": "latin-1"}]


def environments(tier):
    combos = []
    if tier == "quick":
        for k in range(16):
            e = dict(LOCALES[k % len(LOCALES)])
            e["PYTHONHASHSEED"] = HASHSEEDS[k % len(HASHSEEDS)] if k < 8 else HASHSEEDS[(k * 3 + 1) % len(HASHSEEDS)]
            if k % 4 == 3:
                e["PYOPT"] = ["O", "OO", "env", "O"][k // 4]     # assert statements compiled out
            if k % 4 == 1:
                e["VF_DECIMAL"] = ["prec=6", "prec=3;rounding=ROUND_UP", "prec=60", "prec=2"][k // 4]
            combos.append(e)
    else:
        for hs, lc in itertools.product(HASHSEEDS, LOCALES):
            e = dict(lc)
            e["PYTHONHASHSEED"] = hs
            if (len(combos) % 5) == 4:
                e["PYOPT"] = ["O", "OO", "env"][len(combos) % 3]
            if (len(combos) % 5) == 2:
                e["VF_DECIMAL"] = ["prec=6", "prec=3;rounding=ROUND_UP", "prec=60", "prec=2"][len(combos) % 4]
            combos.append(e)
    return combos


def plan(tier, seed):
    envs = environments(tier)
    per = (len(envs) + 15) // 16
    return [{"shard": i, "envs": envs[i * per:(i + 1) * per], "n_plain": 12 if tier == "quick" else 100,
             "n_fmt": 8 if tier == "quick" else 60, "reach": True} for i in range(16) if envs[i * per:(i + 1) * per]]


NONASCII = ("name:latin1", "name:cjk", "name:astral", "name:combining")


def build_cases(seed, n_plain, n_fmt):
    cases = []
    for k in range(n_plain):
        r = rand.rng(seed, "c12plain", k)
        kind = k % 3
        n = r.choice([r.randint(6, 15), r.randint(15, 40)])
        if kind == 0:     # several relations per parent, every group kind
            spec = rand.rand_model(r, n, n_ctcs=r.randint(0, 4), ctc_depth=2, ops=RT.LOG7, profile="wide",
                                   group_kinds=("alternative", "or", "mutex", "cardinality"))
            writers = ["uvl", "afm", "json", "splot", "exp"]
        elif kind == 1:   # one group per feature, every group kind
            spec = rand.rand_model(r, n, n_ctcs=r.randint(0, 4), ctc_depth=2, ops=RT.LOG7, multi_rel=False,
                                   group_kinds=("alternative", "or", "mutex", "cardinality"), abstract_p=0.2)
            writers = ["uvl", "afm", "json", "glencoe", "splot", "exp"] + (["clafer"] if clafer_fragment(spec) else [])
        else:             # FeatureIDE fragment
            spec = rand.rand_model(r, n, n_ctcs=r.randint(0, 4), ctc_depth=2, ops=RT.LOG7, multi_rel=False,
                                   group_kinds=("alternative", "or"), abstract_p=0.2)
            writers = ["uvl", "afm", "json", "glencoe", "fide", "splot", "exp"] + (["clafer"] if clafer_fragment(spec) else [])
        cases.append({"spec": spec, "writers": writers, "digest": S.digest(spec), "kind": "plain%d" % kind})
    # wide cardinality groups (13-16 children): set iteration order shows only with many members
    for k in (13, 16):
        r = rand.rng(seed, "c12wide", k)
        used = {"Wide", "Opt"}
        kids = [{"name": rand.plain_name(r, used), "rels": []} for _ in range(k)]
        spec = {"root": {"name": "Wide", "rels": [{"min": 2, "max": 3, "children": kids},
                                                  {"min": 0, "max": 1, "children": [{"name": "Opt", "rels": []}]}]}, "ctcs": []}
        cases.append({"spec": spec, "writers": ["uvl", "afm", "json", "splot", "exp"], "digest": S.digest(spec),
                      "kind": "wide-group"})
    # floats in exponent notation, non-finite floats inside list/map values (ASCII names: no reader involved)
    for k in range(3):
        r = rand.rng(seed, "c12floats", k)
        spec = rand.rand_model(r, r.randint(5, 9), n_ctcs=1, ctc_depth=1, ops=RT.LOG7, profile="wide")
        fs = list(S.features(spec["root"]))
        vals = [("eps", 1e-05), ("big", 1e16), ("tiny", 2.5e-10), ("huge", 1.2345678901234567e+30), ("bounds", [0.0, float("inf")]),
                ("lim", {"hi": float("inf"), "lo": float("-inf"), "step": 1e-07}), ("ratio", 0.1 + 0.2)]
        for j, (nm, v) in enumerate(r.sample(vals, 5)):
            fs[j % len(fs)].setdefault("attrs", []).append({"name": nm, "value": v})
        writers = ["uvl", "json"]
        if k == 2:
            owner = next(f for f in fs if f.get("attrs"))
            spec["ctcs"].append({"name": "lit", "ast": ["GREATER", owner["name"] + "." + owner["attrs"][0]["name"], 2.5e-10]})
            writers = ["uvl"]
        # (UVL has no exponent notation and no non-finite numbers: C01 excludes such values, the text is not read back)
        cases.append({"spec": spec, "writers": writers, "digest": S.digest(spec), "kind": "floats",
                      "readable": {"uvl": False, "json": True}})
    # one attribute name with values of different types on different features (an export that declares one type per
    # name has to pick one - from the model, not from a set's iteration order)
    for k in range(2):
        r = rand.rng(seed, "c12mixedtypes", k)
        spec = rand.rand_model(r, r.randint(6, 10), n_ctcs=1, ctc_depth=1, ops=RT.LOG7, multi_rel=False,
                               group_kinds=("alternative", "or"))
        fs = list(S.features(spec["root"]))
        vals = ["text", 7, True, 2.5, None, "other", 0]
        r.shuffle(vals)
        for j, f in enumerate(fs[:6]):
            f.setdefault("attrs", []).append({"name": "info", "value": vals[j % len(vals)]})
            if j % 2:
                f["attrs"].append({"name": "level", "value": [3, "x", False][j % 3]})
        writers = ["uvl", "json"] + (["clafer"] if clafer_fragment(spec) else [])
        cases.append({"spec": spec, "writers": writers, "digest": S.digest(spec), "kind": "attr-mixed-types"})
    for fname, fmt in RT.FORMATS.items():
        # (long XOR / mixed chains are exponential in the dependency's CNF conversion, which SPLOT uses)
        classes = [c for c in fmt.classes() if c[0] not in ("ctc:chain7-20", "ctc:chain17-70", "ctc:wide11-15")]
        classes.append(("ctc:and-or-chain", inject.inj_ctc_chain(("AND", "OR"), (7, 30))))
        na = [c for c in classes if c[0] in NONASCII]
        for k in range(n_fmt):
            r = rand.rng(seed, "c12fmt", fname, k)
            base = inject.base(r)
            chosen = r.sample(classes, r.randint(2, 4))
            if na and k % 2 == 0:
                chosen.append(na[(k // 2) % len(na)])      # every non-ASCII class (incl. non-NFC names) in every run
            spec, tags = inject.apply(base, chosen, r)
            writers = [fname]
            if fname in ("json", "glencoe", "fide") and not any(
                    ch in n for n in S.feature_names(spec) for ch in '"\n\t()\x07'):
                # hostile names also go through the three export-only writers (no reader to round trip)
                boolean_ok = all(S.is_logical_ast(c["ast"]) for c in spec["ctcs"])
                if boolean_ok:
                    writers += ["splot", "exp"] + (["clafer"] if clafer_fragment(spec) else [])
            cases.append({"spec": spec, "writers": writers, "digest": S.digest(spec), "kind": "fmt:" + fname,
                          "tags": tags})
    return cases


def run_shard(desc, acc):
    cases = build_cases(desc["seed"], desc["n_plain"], desc["n_fmt"])
    work = tempfile.mkdtemp(prefix="vf-c12p-")
    try:
        cf = os.path.join(work, "cases.json")
        with open(cf, "w", encoding="utf-8") as fh:
            json.dump(cases, fh)
        shas = {}
        for ei, e in enumerate(desc["envs"]):
            of = os.path.join(work, f"out{ei}.json")
            cenv = env.child_env()
            for k in ("LC_ALL", "PYTHONUTF8", "PYTHONIOENCODING", "LANG", "LC_CTYPE"):
                cenv.pop(k, None)
            cenv.update(e)
            flags = ["-O"] if e.get("PYOPT") == "O" else ["-OO"] if e.get("PYOPT") == "OO" else []
            if e.get("PYOPT") == "env":
                cenv["PYTHONOPTIMIZE"] = "1"
            cenv.pop("PYOPT", None)
            try:
                p = subprocess.run([env.PYTHON] + flags + ["-X", "dev", "-X", "warn_default_encoding", "-m", "vf.c12child", cf, of],
                                   cwd=env.VERIF, env=cenv, timeout=3000, stdout=subprocess.PIPE, stderr=subprocess.PIPE)
            except subprocess.TimeoutExpired:
                acc.inconc(f"child timed out in env {e}")
                continue
            if p.returncode != 0 or not os.path.exists(of):
                acc.inconc(f"child failed in env {e}: {p.stderr.decode(errors='replace')[-500:]}")
                continue
            with open(of, encoding="utf-8") as fh:
                out = json.load(fh)
            envd = out["env"]
            from ..monitors import reach
            for rk, rv in out.get("reach", {}).items():
                reach._counts[rk] += rv
            acc.count("child-processes")
            acc.count(f"env:hashseed={envd['PYTHONHASHSEED']},LC_ALL={envd['LC_ALL']},utf8={envd['utf8_mode']},"
                      f"ioenc={envd['PYTHONIOENCODING']},preferred={envd['preferred_encoding']},optimize={envd.get('optimize')}")
            bykind = {c["digest"]: c for c in cases}
            for rec in out["results"]:
                case = bykind[rec["model"]]
                cls = f"{rec['writer']}|{case['kind']}"
                key = S.digest([rec["writer"], rec["model"], e])
                payload = {"writer": rec["writer"], "spec": case["spec"], "env": e}
                if rec.get("restore"):
                    acc.count("mutate-then-restore-observed:" + rec["writer"], rec["restore"])
                if rec["problems"]:
                    for clause, sym, detail in rec["problems"]:
                        acc.fail(cls, clause, rec["writer"], [], sym, f"{detail} [env {e}]", payload, key)
                else:
                    acc.held(cls, key)
                if rec["sha"]:
                    shas.setdefault(f"{rec['writer']}|{rec['model']}", []).append([rec["sha"], json.dumps(e, sort_keys=True)])
        acc.extra["shas"] = shas
        if len(acc.samples) < 2:
            acc.sample({"env": desc["envs"][0], "case": {"writers": cases[-1]["writers"], "tags": cases[-1].get("tags"),
                                                           "spec": cases[-1]["spec"]}})
    finally:
        import shutil
        shutil.rmtree(work, ignore_errors=True)


def finalize(acc, tier, seed):
    """Offline trace checker across all child processes: same (writer, model) => same output digest."""
    allsha = {}
    for sh in acc.extra.get("shards", []):
        for k, lst in sh.get("shas", {}).items():
            allsha.setdefault(k, []).extend(lst)
    n = 0
    for k, lst in allsha.items():
        n += len(lst)
        distinct = {}
        for sha, e in lst:
            distinct.setdefault(sha, e)
        if len(distinct) > 1:
            w, md = k.split("|")
            envs = list(distinct.values())
            acc.fail(w + "|cross-process", "function-of-the-model", w, [], "output-differs-across-processes",
                     f"model {md}: {len(distinct)} different outputs, e.g. under {envs[0]} and {envs[1]}",
                     {"writer": w, "model_digest": md, "envs": envs[:2], "seed": seed})
    acc.counters["cross-process-output-comparisons"] = n
    acc.counters["distinct-(writer,model)-pairs"] = len(allsha)


def replay(payload, acc):
    if "spec" not in payload:
        acc.inconc("cross-process witnesses are replayed by re-running the tier with the same seed")
        return
    desc = {"seed": 0, "envs": [payload["env"]], "n_plain": 0, "n_fmt": 0}
    global build_cases
    saved = build_cases
    build_cases = lambda *_: [{"spec": payload["spec"], "writers": [payload["writer"]],  # noqa: E731
                               "digest": S.digest(payload["spec"]), "kind": "replay"}]
    try:
        run_shard(desc, acc)
    finally:
        build_cases = saved

"""C10 - SPLOT (SXFM) and propositional (.exp) exports denote exactly the model's configurations."""
from .. import spec as S, refsem
from ..acc import guard
from ..gen import shapes, rand, formulas
from ..interp import sxfm, exp
from . import semops
from .c18 import expand, dep_tags

LEVEL = "translation_validation"
RULE = ("programs = exports of Boolean models: every tree shape with n<=N features (N=5 quick / 6 thorough) and "
        "every relation cardinality with max>=1, each without constraints and with 1-3 constraints drawn from "
        "the depth<=2 enumeration over the 8 logical operators, plus seeded random models up to 12 features; "
        "each export is interpreted by an independent interpreter over all 2^n selections and compared "
        "bit-for-bit with the reference configuration set. Distinct by digest of (writer, spec); non-trivial "
        "when the model has a relation.")
ASSUMPTIONS = ["SXFM semantics: ':m' child<=>parent, ':o' child=>parent, ':g [a,b]' members=>parent and a<=count<=b "
               "under a selected parent; clauses are disjunctions with '~' negation",
               ".exp semantics: conjunction of lines; precedence not > and > or/XOR > -> > <->; identifiers "
               "must be feature names (a fresh identifier makes the export unparseable for this purpose)",
               "feature names are plain identifiers (the property does not quantify over names)"]
ANCHORS = ["splot_writer.py:add_features", "splot_writer.py:add_constraints", "pl_writer.py:to_exp",
           "pl_writer.py:get_relation_formula", "pl_writer.py:get_constraint_formula",
           "pl_writer.py:get_mutex_formula", "pl_writer.py:get_cardinality_formula",
           "pl_writer.py:get_alternative_formula", "pl_writer.py:get_or_formula"]
NSHARDS = 16


def plan(tier, seed):
    return [{"shard": i, "nshards": NSHARDS, "nmax": 5 if tier == "quick" else 6,
             "n_random": 300 if tier == "quick" else 60000, "n_large": 32 if tier == "quick" else 2000} for i in range(NSHARDS)]


def cases(desc):
    i, n, seed = desc["shard"], desc["nshards"], desc["seed"]
    pool = [f for f in formulas.formulas(2) if isinstance(f, list)]
    idx = 0
    for spec in shapes.all_specs(desc["nmax"], shapes.cards_pos):
        idx += 1
        if idx % n != i:
            continue
        yield "shape", spec
        if len(S.feature_names(spec)) >= 2:
            r = rand.rng(seed, "c10", idx)
            yield "shape+ctc", semops.with_ctcs(spec, r, r.randint(1, 3), pool)
    for j in range(desc["n_random"]):
        if j % n == i:
            r = rand.rng(seed, "c10r", j)
            spec = rand.rand_model(r, r.randint(2, 12), n_ctcs=r.choice([0, 1, 2, 3]), ctc_depth=3,
                                   group_kinds=("alternative", "or", "mutex", "cardinality"),
                                   profile=r.choice(["mixed", "deep", "wide"]))
            if j % 3 == 0 and spec.get("ctcs"):
                # plain identifiers that contain operator words (SENSOR, BRAND, ANDROID...)
                from ..gen import inject
                yield "random+opword-names", inject.rename_to_opwords(spec, r)
            else:
                yield "random", spec


def interpret(which, text, names):
    if which == "splot":
        ids, sel = sxfm.selections(text)
        missing = [n for n in names if n not in ids]
        extra = [i for i in ids if i not in names]
        return sel, missing, extra
    sel = exp.selections(text, names)
    missing = [n for n in names if n not in exp.mentioned(text, names)]
    return sel, missing, []


def export(which, spec):
    from flamapy.metamodels.fm_metamodel.transformations import SPLOTWriter
    from flamapy.metamodels.fm_metamodel.transformations.pl_writer import PLWriter
    m = S.build(spec)
    return (SPLOTWriter if which == "splot" else PLWriter)(None, m).transform()


def compare(which, spec):
    """None if the export denotes Sem(spec); else (clause, symptom, detail)."""
    names = S.feature_names(spec)
    try:
        text = export(which, spec)
    except Exception as e:  # noqa: BLE001
        return ("no-exception", f"raises:{type(e).__name__}", f"{type(e).__name__}: {e}")
    try:
        sel, missing, extra = interpret(which, text, names)
    except (sxfm.SxfmError, exp.ExpError) as e:
        return ("export-parseable", "unparseable", f"{e} in export:\n{text[:400]}")
    if missing:
        return ("no-feature-missing", "feature-missing", f"{missing} not in export")
    idx, sem = refsem.brute(spec)
    ref = {idx.names_of(m) for m in sem}
    if sel != ref:
        only_e = sorted(map(sorted, sel - ref))[:2]
        only_r = sorted(map(sorted, ref - sel))[:2]
        return ("same-configurations", "more-configurations" if (sel - ref and not ref - sel) else
                "fewer-configurations" if (ref - sel and not sel - ref) else "different-configurations",
                f"|export|={len(sel)} |model|={len(ref)} only-export={only_e} only-model={only_r}")
    return None


def structural(spec):
    """SPLOT only: the declared tree equals the model's tree (any size)."""
    try:
        try:
            text = export("splot", spec)
        except Exception:  # noqa: BLE001 - failures of the constraint conversion are judged (and attributed) by compare()
            if not spec.get("ctcs"):
                raise
            text = export("splot", {"root": spec["root"], "ctcs": []})
        got, clauses = sxfm.structure(text)
    except sxfm.SxfmError as e:
        return ("export-parseable", "unparseable", str(e)[:200])
    except Exception as e:  # noqa: BLE001
        return ("no-exception", f"raises:{type(e).__name__}", f"{type(e).__name__}: {e}")
    if S.canon_tree(got["root"], ()) != S.canon_tree(spec["root"], ()):
        ne, no = sorted(S.feature_names(spec)), sorted(S.feature_names(got))
        return ("same-tree", "feature-missing" if ne != no else "tree-differs",
                f"declared tree differs: {[n for n in ne if n not in no][:5]} missing; "
                f"{S.first_diff(S.canon_tree(spec['root'], ()), S.canon_tree(got['root'], ()))}")
    return None


def run_large(acc, spec, source):
    cls = f"splot:{source}"
    key = S.digest(["splot-structure", spec])
    acc.programs += 1
    v = structural(spec)
    acc.disagreements_checked += 1
    if v:
        acc.fail(cls, v[0], "splot", [], v[1], v[2], {"which": "splot", "source": source,
                                                     "spec": spec if len(S.feature_names(spec)) <= 60 else None}, key)
    else:
        acc.held(cls, key)
    # the propositional export of a large constraint-free tree is judged through its model count on
    # sampled partial assignments is out of reach; its formulas are at least parseable and mention every feature
    names = S.feature_names(spec)
    cls = f"exp:{source}"
    acc.programs += 1
    try:
        text = export("exp", spec)
        missing = [n for n in names if n not in exp.mentioned(text, names)]
        if missing:
            acc.fail(cls, "no-feature-missing", "exp", [], "feature-missing", f"{missing[:5]}", {"which": "exp", "source": source}, key)
        else:
            acc.held(cls, S.digest(["exp-parse", spec]))
    except exp.ExpError as e:
        acc.fail(cls, "export-parseable", "exp", [], "unparseable", str(e)[:200], {"which": "exp", "source": source}, key)
    except Exception as e:  # noqa: BLE001
        acc.fail(cls, "no-exception", "exp", [], f"raises:{type(e).__name__}", str(e)[:200], {"which": "exp", "source": source}, key)


def run_case(acc, source, spec):
    rel_tags = semops.model_tags(spec)
    ops = set()
    for c in spec.get("ctcs", []):
        ops |= set(S.ast_ops(c["ast"]))
    for which in ("splot", "exp"):
        cls = f"{which}:{source}" + ("|" + "+".join(rel_tags) if rel_tags else "")
        key = S.digest([which, spec]) if spec["root"].get("rels") else None
        payload = {"which": which, "source": source, "spec": spec}
        acc.programs += 1
        v = compare(which, spec)
        acc.disagreements_checked += 1
        if v is None:
            acc.held(cls, key)
            continue
        # attribution of constraint-conversion failures to the dependency's XOR/EQUIVALENCE handling
        tags = []
        deps = sorted({"ctc:XOR", "ctc:EQUIVALENCE"} & {"ctc:" + o for o in ops})
        if deps and which == "splot":
            neutral = {"root": spec["root"], "ctcs": [{"name": c["name"], "ast": expand(c["ast"])} for c in spec["ctcs"]]}
            if compare(which, neutral) is None and compare(which, {"root": spec["root"], "ctcs": []}) is None:
                tags = deps
        acc.fail(cls, v[0], which, tags, v[1], v[2], payload, key)
    if len(acc.samples) < 3 and source == "shape+ctc":
        acc.sample({"spec": spec, "splot": export("splot", spec)[:600]})


def history_inplace(acc, spec, seed, j):
    """Export, edit a constraint's expression tree in place (node attributes, no setter, same AST object), export
    again with a fresh writer object: the second export must denote the edited model."""
    import copy
    from flamapy.metamodels.fm_metamodel.transformations import SPLOTWriter
    from flamapy.metamodels.fm_metamodel.transformations.pl_writer import PLWriter
    if not spec.get("ctcs"):
        return
    r = rand.rng(seed, "c10inplace", j)
    names = S.feature_names(spec)
    for which, W in (("exp", PLWriter), ("splot", SPLOTWriter)):
        m = S.build(spec)
        try:
            w_pre = W(None, m)            # a writer constructed before the edits, asked to transform after them
            W(None, m).transform()
        except Exception:  # noqa: BLE001 - judged by run_case
            continue
        i = r.randrange(len(spec["ctcs"]))
        t3 = S.inplace_edit_ast(m.ctcs[i].ast, spec["ctcs"][i]["ast"], r, names, ("AND", "OR", "IMPLIES"))
        if t3 is None:
            continue
        es = copy.deepcopy(spec)
        es["ctcs"][i]["ast"] = t3
        if len(names) >= 2 and not spec.get("share_nodes"):
            # the LIST of constraints is edited as well: one more, appended in place or by reassigning the list
            from flamapy.core.models.ast import AST
            from flamapy.metamodels.fm_metamodel.models.feature_model import Constraint
            added = {"name": "added-after-first-export", "ast": ["REQUIRES", names[-1], names[0]]}
            newc = Constraint(added["name"], AST(S.build_ast(added["ast"])))
            if r.random() < 0.5:
                m.ctcs.append(newc)
            else:
                m.ctcs = list(m.ctcs) + [newc]
            es["ctcs"].append(added)
        cls = f"{which}:history:in-place-ast-node"
        key = S.digest([which, "inplace", es])
        acc.programs += 1
        try:
            text = W(None, m).transform()
            sel, missing, extra = interpret(which, text, names)
            fresh = interpret(which, export(which, es), names)[0]
        except Exception as e:  # noqa: BLE001
            if compare(which, es) is None:
                acc.fail(cls, "no-exception", which, [], f"raises:{type(e).__name__}", str(e)[:200], {"which": which, "spec": es}, key)
            continue
        acc.disagreements_checked += 1
        if sel != fresh:
            acc.fail(cls, "same-configurations", which, [], "stale-after-in-place-edit",
                     f"export after in-place edit of constraint {i} differs from a fresh export of the edited model "
                     f"(|got|={len(sel)} |fresh|={len(fresh)})", {"which": which, "spec": es, "before": spec, "history": "in-place"}, key)
        else:
            acc.held(cls, key)
        # the writer constructed before the edits: the edited model's export or (a writer that copies at
        # construction) the original model's - not a mixture of the two
        cls = f"{which}:history:writer-constructed-before-edit"
        try:
            sel_pre = interpret(which, w_pre.transform(), names)[0]
            orig = interpret(which, export(which, spec), names)[0]
        except Exception as e:  # noqa: BLE001
            # (exports the dependency's known defects make unparseable are judged, and attributed, by run_case)
            if compare(which, es) is None and compare(which, spec) is None:
                acc.fail(cls, "no-exception", which, [], f"raises:{type(e).__name__}", str(e)[:200], {"which": which, "spec": es, "before": spec}, key)
            continue
        if sel_pre != fresh and sel_pre != orig:
            acc.fail(cls, "same-configurations", which, [], "mixed-export",
                     "a writer constructed before in-place edits exported neither the edited nor the original model "
                     f"(|got|={len(sel_pre)} |edited|={len(fresh)} |original|={len(orig)})",
                     {"which": which, "spec": es, "before": spec, "history": "writer-before-edit"}, key)
        else:
            acc.held(cls, S.digest([which, "pre", es]))


def run_wide_sampled(acc, spec, seed, source):
    """Groups too wide for 2^n: the .exp export is evaluated by the independent interpreter on structured samples
    (parent with exactly c children for every c, a few subsets each; parent unselected; random) and compared with
    the reference validity of each selection."""
    names = S.feature_names(spec)
    r = rand.rng(seed, "c10-wide-sampled", S.digest(spec))
    idx = refsem.Idx(spec)
    kids = [c["name"] for c in spec["root"]["rels"][0]["children"]]
    rootb = idx.bit[spec["root"]["name"]]
    masks = []
    for c in range(len(kids) + 1):
        for _ in range(4):
            m = rootb
            for k in r.sample(kids, c):
                m |= idx.bit[k]
            masks.append(m)
            for b in (x for x in idx.names if x not in kids and x != spec["root"]["name"]):
                if r.random() < 0.5:
                    m |= idx.bit[b]
            masks.append(m)
    masks += [0, idx.bit[kids[0]], idx.bit[kids[0]] | idx.bit[kids[1]]] + [r.getrandbits(idx.n) for _ in range(20)]
    cls = f"exp:{source}"
    key = S.digest(["exp-wide-sampled", spec])
    acc.programs += 1
    try:
        text = export("exp", spec)
        got = exp.truth_on(text, idx.names, masks)
    except exp.ExpError as e:
        acc.fail(cls, "export-parseable", "exp", [], "unparseable", str(e)[:200], {"which": "exp", "source": source}, key)
        return
    except Exception as e:  # noqa: BLE001
        acc.fail(cls, "no-exception", "exp", [], f"raises:{type(e).__name__}", str(e)[:200], {"which": "exp", "source": source}, key)
        return
    acc.disagreements_checked += len(masks)
    ctcs = [c["ast"] for c in spec.get("ctcs", [])]
    for m, g in zip(masks, got):
        want = refsem.tree_ok(idx, m) and all(refsem._ctc_eval(a, idx, m) for a in ctcs)
        if g != want:
            nsel = sum(1 for k in kids if m & idx.bit[k])
            acc.fail(cls, "same-configurations", "exp", [], "more-configurations" if g else "fewer-configurations",
                     f"selection with {nsel} of {len(kids)} group members, parent {'selected' if m & rootb else 'not selected'}: "
                     f"model says {want}, export says {g}", {"which": "exp", "source": source, "spec": spec, "wide": True}, key)
            return
    acc.held(cls, key)


def run_shard(desc, acc):
    i, n, seed = desc["shard"], desc["nshards"], desc["seed"]
    # one group per run that is too wide for the 2^n comparison (the writer enumerates every admissible selection
    # of a cardinality group: 17 members are about what it can write)
    for wi, (k, mn, mx) in enumerate(((17, 7, 9), (17, 2, -1), (16, 2, 15), (17, 1, 16), (18, 8, 9), (17, 15, -1))):
        if wi % n == i and (desc["nmax"] > 5 or wi in (0, 1, 2 + seed % 4)):
            kids = [{"name": f"G{j}", "rels": []} for j in range(k)]
            spec = {"root": {"name": "W", "rels": [{"min": mn, "max": mx, "children": kids},
                                                   {"min": 0, "max": 1, "children": [{"name": "Side", "rels": []}]}]},
                    "ctcs": [{"name": "c", "ast": ["IMPLIES", "G0", "Side"]}]}
            run_wide_sampled(acc, spec, seed, f"wide-group-sampled-{k}[{mn}..{mx}]")
    for j, (source, spec) in enumerate(cases(desc)):
        run_case(acc, source, spec)
        if source.startswith("random") or j % 40 == 0:
            history_inplace(acc, spec, desc["seed"], j)
        v = structural(spec)
        if v:
            acc.fail("splot:structure", v[0], "splot", [], v[1], v[2], {"which": "splot", "source": source, "spec": spec})
    i, n, seed = desc["shard"], desc["nshards"], desc["seed"]
    for j in range(desc.get("n_large", 0)):
        if j % n == i:
            r = rand.rng(seed, "c10large", j)
            spec = rand.rand_model(r, r.randint(60, 200), n_ctcs=0, profile=r.choice(["mixed", "deep", "wide"]),
                                   group_kinds=("alternative", "or", "mutex", "cardinality"))
            run_large(acc, spec, "large-random")
    # deep nesting (indentation thresholds of the tree-shaped export) - structural comparison
    for j, depth in enumerate((12, 22, 30, 45)):
        if j % n == i:
            root = cur = {"name": "D0", "rels": []}
            for q in range(1, depth):
                nxt = {"name": f"D{q}", "rels": []}
                if q % 4 == 0:
                    cur["rels"].append({"min": 1, "max": 2, "children": [nxt, {"name": f"E{q}", "rels": []}]})
                else:
                    cur["rels"].append({"min": q % 2, "max": 1, "children": [nxt]})
                cur = nxt
            run_large(acc, {"root": root, "ctcs": []}, f"deep-chain-{depth}")
    # names that differ only in letter case, with parallel constraints (in one model and in two models
    # exported one after the other)
    for j in range(24):
        if j % n == i:
            r = rand.rng(seed, "c10case", j)
            base = rand.rand_model(r, r.randint(5, 9), group_kinds=("alternative", "or", "mutex"), solitary_kinds=("optional", "optional", "mandatory"))
            nm = S.feature_names(base)
            a, b, c = nm[1], nm[2], nm[-1] if len(nm) > 3 else nm[0]   # c: a non-root target when there is one
            twin = a.swapcase()
            if twin in nm or twin == a:
                continue

            def ren(spec, old, new):
                import copy
                s2 = copy.deepcopy(spec)
                for f in S.features(s2["root"]):
                    if f["name"] == old:
                        f["name"] = new
                return s2
            one = ren(base, b, twin)
            one["ctcs"] = [{"name": "c0", "ast": ["IMPLIES", a, c]}, {"name": "c1", "ast": ["IMPLIES", twin, c]},
                           {"name": "c2", "ast": ["EXCLUDES", a, twin]}]
            run_case(acc, "case-colliding-names", one)
            m1 = dict(base, ctcs=[{"name": "c0", "ast": ["REQUIRES", a, b]}])
            m2 = ren(base, a, twin)
            m2["ctcs"] = [{"name": "c0", "ast": ["REQUIRES", twin, b]}]
            run_case(acc, "case-colliding-models", m1)
            run_case(acc, "case-colliding-models", m2)
    # names that differ only by a hyphen inside (WiFi / Wi-Fi): distinct features, used in one clause
    for j in range(16):
        if j % n == i:
            r = rand.rng(seed, "c10hyphen", j)
            base = rand.rand_model(r, r.randint(5, 9), group_kinds=("alternative", "or", "mutex"), solitary_kinds=("optional", "optional", "mandatory"))
            nm = S.feature_names(base)
            a, b, c = nm[1], nm[2], nm[-1]
            x, y = r.choice([("WiFi", "Wi-Fi"), ("email", "e-mail"), ("Addon", "Add-on"), ("AB", "A-B")])
            if x in nm or y in nm:
                continue
            ren = {a: x, b: y}
            for f in S.features(base["root"]):
                f["name"] = ren.get(f["name"], f["name"])
            c = ren.get(c, c)
            base["ctcs"] = [{"name": "h0", "ast": r.choice([["REQUIRES", x, y], ["OR", x, y], ["IMPLIES", y, x], ["EXCLUDES", x, y]])},
                            {"name": "h1", "ast": ["IMPLIES", ["AND", x, c], y] if c not in (x, y) else ["OR", ["NOT", x], y]}]
            run_case(acc, "hyphen-twin-names", base)
    for wi, k in enumerate((9, 10, 11, 12, 13)):
        if wi % n == i:
            r = rand.rng(seed, "c10wide", k)
            for mn, mx in ((1, 1), (1, k), (0, 1), (2, k - 1), (k, k), (0, k), (3, 3)):
                kids = [{"name": f"G{j}", "rels": []} for j in range(k)]
                spec = {"root": {"name": "W", "rels": [{"min": mn, "max": mx, "children": kids}]},
                        "ctcs": [{"name": "c", "ast": ["IMPLIES", "G0", ["OR", "G1", "G2"]]}] if r.random() < 0.5 else []}
                run_case(acc, "wide-group", spec)


def replay(payload, acc):
    if payload.get("wide"):
        run_wide_sampled(acc, payload["spec"], 0, payload["source"])
        return
    run_case(acc, payload["source"], payload["spec"])

"""C03 - model queries agree with the feature tree they describe."""
import collections
import os

from .. import spec as S, refdefs, corpus
from ..acc import guard
from ..gen import shapes, rand, formulas

LEVEL = "exploration"
RULE = ("models: every tree shape with n<=N features and every relation cardinality 0<=min<=max<=k (N=6 quick / 7 "
        "thorough); seeded random models up to 300 features with typed features, feature cardinalities, "
        "abstract flags, attributes and 0-8 constraints of every kind (logical, comparison, arithmetic, "
        "aggregate); models returned by XMLReader from the shipped corpus (quick <=1000 features) and by the "
        "JSON/Glencoe/FeatureIDE/UVL/AFM readers from library-written documents. Every public query of "
        "FeatureModel/Feature/Relation is called and compared with the value computed from the observation "
        "(identity-based walk). Distinct by spec digest; non-trivial when the model has a relation.")
ASSUMPTIONS = ["the observation (walk over root/relations/children/parent by object identity) is the ground "
               "truth; a one-child relation with cardinality other than [1,1]/[0,1] has no class in the "
               "property's taxonomy and is exempt from the exactly-one-class clause only"]
ANCHORS = ["feature_model.py:Relation.is_mandatory", "feature_model.py:Relation.is_optional",
           "feature_model.py:Relation.is_or", "feature_model.py:Relation.is_alternative",
           "feature_model.py:Relation.is_mutex", "feature_model.py:Relation.is_cardinal",
           "feature_model.py:Relation.is_group", "feature_model.py:Feature.is_mandatory",
           "feature_model.py:Feature.is_optional", "feature_model.py:Feature.get_children",
           "feature_model.py:Feature.is_multiple_group_decomposition",
           "feature_model.py:FeatureModel.get_relations", "feature_model.py:FeatureModel.get_features",
           "feature_model.py:FeatureModel.get_feature_by_name",
           "feature_model.py:FeatureModel.get_mandatory_features",
           "feature_model.py:FeatureModel.get_strictcomplex_constraints"]
NSHARDS = 16
CONTRACTS = None   # the query contracts run with the pinned tests only (inside C03's own shards every query is judged directly)
REL_PREDS = {"mandatory": "is_mandatory", "optional": "is_optional", "or": "is_or",
             "alternative": "is_alternative", "mutex": "is_mutex", "cardinal": "is_cardinal"}


def plan(tier, seed):
    return [{"shard": i, "nshards": NSHARDS, "nmax": 6 if tier == "quick" else 7,
             "n_random": 240 if tier == "quick" else 3000, "n_formulas": 6000 if tier == "quick" else 10 ** 9,
             "corpus_max": 1000 if tier == "quick" else 10 ** 9} for i in range(NSHARDS)]


def rand_rich_model(r):
    n = r.choice([r.randint(1, 12), r.randint(12, 60), r.randint(60, 300)])
    spec = rand.rand_model(r, n, group_kinds=("alternative", "or", "mutex", "cardinality", "dead"),
                           solitary_kinds=("mandatory", "optional", "dead"), abstract_p=0.2,
                           profile=r.choice(["mixed", "deep", "wide"]))
    names = S.feature_names(spec)
    for f in S.features(spec["root"]):
        x = r.random()
        if x < 0.3:
            f["ftype"] = r.choice(["Integer", "Real", "String", "Boolean"])
        if r.random() < 0.15:
            a = r.randint(0, 3)
            f["fcard"] = [a, r.choice([a, a + r.randint(0, 4), -1])]
        if r.random() < 0.2:
            f["attrs"] = [{"name": f"a{k}", "value": r.choice([1, 2.5, "x", True, None])}
                          for k in range(r.randint(1, 3))]
    ctcs = []
    for k in range(r.randint(0, 8)):
        kind = r.choice(["simple", "logical", "logical", "compare", "arith", "aggr", "literal"])
        a, b = r.choice(names), r.choice(names)
        if kind == "simple":
            ast = r.choice(list(formulas.SIMPLE_FORMS.values()))[0](a, b)
        elif kind == "logical":
            # depth is bounded: the dependency's CNF conversion (used by the pseudo/strict-complex
            # predicates) is exponential in the nesting of XOR/EQUIVALENCE
            if r.random() < 0.5:
                ast = rand.rand_formula(r, r.sample(names, min(len(names), 4)), r.randint(1, 2))
            else:
                ast = rand.rand_formula(r, r.sample(names, min(len(names), 4)), 3,
                                        ops=("AND", "OR", "NOT", "IMPLIES", "REQUIRES", "EXCLUDES"))
            if not isinstance(ast, list):
                ast = ["NOT", ast]
        elif kind == "compare":
            ast = [r.choice(S.COMPARE), a + ".a0", r.choice([3, 2.5, b + ".a0", "'txt'"])]
        elif kind == "arith":
            ast = [r.choice(S.COMPARE), [r.choice(S.ARITH), a + ".a0", r.choice([2, b + ".a1"])], 10]
        elif kind == "aggr":
            ag = r.choice(S.AGGR)
            inner = [ag, "a0", a] if ag in ("SUM", "AVG") and r.random() < 0.7 else [ag, a + ".a0" if ag != "SUM" else "a0"]
            ast = [r.choice(S.COMPARE), inner, 5]
        else:
            ast = a
        ctcs.append({"name": f"k{k}", "ast": ast})
    spec["ctcs"] = ctcs
    return spec


def cases(desc):
    i, n, seed = desc["shard"], desc["nshards"], desc["seed"]
    idx = 0
    for spec in shapes.all_specs(desc["nmax"]):
        idx += 1
        if idx % n == i:
            yield "shape", spec, None
    for j in range(desc["n_random"]):
        if j % n == i:
            yield "random", rand_rich_model(rand.rng(seed, "c03", j)), None
    # constraint-kind listings over the enumerated depth<=2 formulas (150 constraints per model)
    allf = [f for f in formulas.formulas(2) if isinstance(f, list)]
    if len(allf) > desc.get("n_formulas", 10 ** 9):
        allf = rand.rng(seed, "c03f").sample(allf, desc["n_formulas"])
    mine = [f for k, f in enumerate(allf) if k % n == i]
    tree = {"name": "R", "rels": [{"min": 0, "max": 1, "children": [{"name": x, "rels": []}]} for x in "ABC"]}
    for c in range(0, len(mine), 150):
        yield "formula-pool", {"root": tree, "ctcs": [{"name": f"f{k}", "ast": a} for k, a in enumerate(mine[c:c + 150])]}, None
    files = [(p, s) for p, s in corpus.fama_files() if (s or 0) <= desc["corpus_max"]]
    for j, (p, s) in enumerate(files):
        if j % n == i:
            yield "reader:XMLReader", None, p
    # documents written by the library and read back by the other readers
    for j in range(max(16, desc["n_random"] // 6)):
        if j % n == i:
            yield "reader:roundtrip", rt_model(rand.rng(seed, "c03rt", j)), None


def rt_model(r):
    return rand.rand_model(r, r.randint(2, 25), n_ctcs=r.randint(0, 3), ctc_depth=2,
                           ops=("AND", "OR", "IMPLIES", "REQUIRES"),
                           group_kinds=("alternative", "or"), multi_rel=False)


def walk(model):
    """Identity-based observation: features, relations, parent/owner maps."""
    feats, rels = [], []
    owner, parent = {}, {}
    stack = [model.root]
    parent[id(model.root)] = None
    while stack:
        f = stack.pop()
        feats.append(f)
        for r in f.relations:
            rels.append(r)
            owner[id(r)] = f
            for c in r.children:
                parent[id(c)] = f
                stack.append(c)
    return feats, rels, owner, parent


def ids(xs):
    return collections.Counter(id(x) for x in xs)


def judge(acc, cls, model, payload, ref_ctc_asts=None, removed_names=()):
    problems = []

    def bad(clause, where, msg):
        problems.append((clause, where, msg))

    feats, rels, owner, parent = walk(model)
    byid = {id(f): f for f in feats}
    # ---- names that left the tree (edit histories) are looked up FIRST, before any other query can make the
    # library refresh whatever it may have cached
    present = {f.name for f in feats}
    for nm in reversed(list(removed_names)):      # deepest names first: a shallow miss may refresh a cache
        if nm not in present and model.get_feature_by_name(nm) is not None:
            bad("lookup-by-name", "FeatureModel.get_feature_by_name", f"{nm!r} is no longer in the tree but is still found")
    # ---- listings contain each element exactly once
    lf = model.get_features()
    if ids(lf) != ids(feats):
        bad("features-listed-once", "FeatureModel.get_features",
            f"{len(lf)} listed, {len(feats)} in tree, dup={[f.name for f in lf if ids(lf)[id(f)] > 1][:5]}")
    lr = model.get_relations()
    if ids(lr) != ids(rels):
        bad("relations-listed-once", "FeatureModel.get_relations", f"{len(lr)} listed, {len(rels)} in tree")
    # ---- relation classes
    rcls = {}
    for r in rels:
        k = len(r.children)
        want = refdefs.rel_class(r.card_min, r.card_max, k)
        rcls[id(r)] = want
        got = [c for c, m in REL_PREDS.items() if getattr(r, m)()]
        if want is None:
            if got:
                bad("relation-class", "Relation.is_*", f"[{r.card_min},{r.card_max}]x{k} classified {got}")
        elif got != [want]:
            bad("relation-class", "Relation.is_*", f"[{r.card_min},{r.card_max}]x{k} classified {got}, expected {want}")
        if r.is_group() != (k > 1):
            bad("relation-class", "Relation.is_group", f"k={k} is_group={r.is_group()}")
    # ---- feature level
    names = collections.Counter(f.name for f in feats)
    exp_lists = collections.defaultdict(list)
    for f in feats:
        p = parent[id(f)]
        myrel = [r for r in (p.relations if p is not None else []) if any(c is f for c in r.children)]
        e = {
            "is_root": p is None,
            "is_leaf": len(f.relations) == 0,
            "is_mandatory": any(rcls[id(r)] == "mandatory" for r in myrel),
            "is_optional": any(rcls[id(r)] == "optional" for r in myrel),
            "is_or_group": any(rcls[id(r)] == "or" for r in f.relations),
            "is_alternative_group": any(rcls[id(r)] == "alternative" for r in f.relations),
            "is_mutex_group": any(rcls[id(r)] == "mutex" for r in f.relations),
            "is_cardinality_group": any(rcls[id(r)] == "cardinal" for r in f.relations),
            "is_group": any(len(r.children) > 1 for r in f.relations),
            "is_multiple_group_decomposition": sum(len(r.children) > 1 for r in f.relations) > 1,
            "is_boolean": getattr(f.feature_type, "value", None) == "Boolean",
            "is_numerical": getattr(f.feature_type, "value", None) in ("Integer", "Real"),
            "is_string": getattr(f.feature_type, "value", None) == "String",
            "is_multifeature": (f.feature_cardinality.min, f.feature_cardinality.max) != (1, 1),
        }
        for m, want in e.items():
            got = getattr(f, m)()
            if got is not want and got != want:
                bad("feature-predicate", f"Feature.{m}", f"{f.name}: {got!r}, expected {want!r}")
            if want:
                exp_lists[m].append(f)
        if f.get_parent() is not p:
            bad("parent-mirrors-tree", "Feature.get_parent",
                f"{f.name}: {getattr(f.get_parent(), 'name', None)} != {getattr(p, 'name', None)}")
        if ids(f.get_children()) != ids(c for r in f.relations for c in r.children):
            bad("children-mirror-tree", "Feature.get_children", f.name)
        if f.get_relations() is not f.relations and ids(f.get_relations()) != ids(f.relations):
            bad("children-mirror-tree", "Feature.get_relations", f.name)
        if ids(f.get_attributes()) != ids(f.attributes):
            bad("feature-fields", "Feature.get_attributes", f.name)
        if names[f.name] == 1:
            g = model.get_feature_by_name(f.name)
            if g is not f:
                bad("lookup-by-name", "FeatureModel.get_feature_by_name", f"{f.name} -> {getattr(g, 'name', g)!r}")
    missing = "no such feature \x00"
    if model.get_feature_by_name(missing) is not None:
        bad("lookup-by-name", "FeatureModel.get_feature_by_name", "unknown name returned a feature")
    for nm in removed_names:
        if nm not in names and model.get_feature_by_name(nm) is not None:
            bad("lookup-by-name", "FeatureModel.get_feature_by_name", f"{nm!r} is no longer in the tree but is still found")
    for getter, pred in (("get_mandatory_features", "is_mandatory"), ("get_optional_features", "is_optional"),
                         ("get_alternative_group_features", "is_alternative_group"),
                         ("get_or_group_features", "is_or_group"), ("get_boolean_features", "is_boolean"),
                         ("get_numerical_features", "is_numerical"), ("get_string_features", "is_string")):
        got = getattr(model, getter)()
        if ids(got) != ids(exp_lists[pred]):
            bad("filtered-listing", f"FeatureModel.{getter}",
                f"{sorted(x.name for x in got)[:8]} != {sorted(x.name for x in exp_lists[pred])[:8]}")
    # ---- constraint-kind listings
    ctcs = model.ctcs
    if model.get_constraints() is not ctcs and ids(model.get_constraints()) != ids(ctcs):
        bad("constraint-listing", "FeatureModel.get_constraints", "differs from ctcs")
    for getter, pred in (("get_logical_constraints", "is_logical_constraint"),
                         ("get_arithmetic_constraints", "is_arithmetic_constraint"),
                         ("get_aggregations_constraints", "is_aggregation_constraint"),
                         ("get_complex_constraints", "is_complex_constraint"),
                         ("get_simple_constraints", "is_simple_constraint"),
                         ("get_pseudocomplex_constraints", "is_pseudocomplex_constraint"),
                         ("get_strictcomplex_constraints", "is_strictcomplex_constraint"),
                         ("get_excludes_constraints", "is_excludes_constraint"),
                         ("get_requires_constraints", "is_requires_constraint")):
        try:
            want = [c for c in ctcs if getattr(c, pred)()]
        except Exception:  # noqa: BLE001 - predicate failures are C18's subject; skip listing comparison
            acc.count("ctc-predicate-raised(" + pred + ")")
            continue
        got = getattr(model, getter)()
        if ids(got) != ids(want):
            bad("constraint-listing", f"FeatureModel.{getter}", f"{len(got)} listed, {len(want)} by predicate")
    if ref_ctc_asts is not None:
        # the requires / excludes listings are what the constraints' meaning implies: a listed constraint is
        # equivalent to l => r (resp. not(l and r)) for two of its names, and every constraint written in one of
        # the documented simple forms is listed
        try:
            req_ids = ids(model.get_requires_constraints())
            exc_ids = ids(model.get_excludes_constraints())
        except Exception:  # noqa: BLE001 - judged by C18
            req_ids = exc_ids = None
        if req_ids is not None:
            for c, ast in zip(ctcs, ref_ctc_asts):
                if not S.is_logical_ast(ast) or len(S.ast_names(ast)) > 6:
                    continue
                nm = sorted(S.ast_names(ast))
                pairs = [(a, b) for a in nm for b in nm]
                is_req = any(S.equivalent(ast, ["IMPLIES", a, b]) is True for a, b in pairs)
                is_exc = any(S.equivalent(ast, ["NOT", ["AND", a, b]]) is True for a, b in pairs)
                if req_ids[id(c)] and not is_req:
                    bad("constraint-listing-meaning", "FeatureModel.get_requires_constraints", f"{ast} listed as requires")
                if exc_ids[id(c)] and not is_exc:
                    bad("constraint-listing-meaning", "FeatureModel.get_excludes_constraints", f"{ast} listed as excludes")
                form = simple_form(ast)
                if form == "requires" and not req_ids[id(c)]:
                    bad("constraint-listing-meaning", "FeatureModel.get_requires_constraints", f"{ast} (documented form) not listed")
                if form == "excludes" and not exc_ids[id(c)]:
                    bad("constraint-listing-meaning", "FeatureModel.get_excludes_constraints", f"{ast} (documented form) not listed")
        for c, ast in zip(ctcs, ref_ctc_asts):
            ops = S.ast_ops(ast)
            want = {"is_logical_constraint": all(o in S.LOGICAL for o in ops),
                    "is_arithmetic_constraint": any(o in S.ARITH + S.COMPARE for o in ops),
                    "is_aggregation_constraint": any(o in S.AGGR for o in ops)}
            for m, w in want.items():
                if getattr(c, m)() != w:
                    bad("constraint-kind", f"Constraint.{m}", f"{ast} -> {getattr(c, m)()}, expected {w}")
    acc.count("features-walked", len(feats))
    acc.count("relations-walked", len(rels))
    acc.count("constraints-walked", len(ctcs))
    return problems


def simple_form(ast):
    """'requires' / 'excludes' when the tree is written in one of the seven documented simple forms."""
    def term(x):
        return isinstance(x, str)

    def neg(x):
        return isinstance(x, list) and x[0] == "NOT" and term(x[1])
    if not isinstance(ast, list) or len(ast) != 3:
        return None
    op, a, b = ast
    if op in ("REQUIRES", "IMPLIES") and term(a) and term(b):
        return "requires"
    if op == "OR" and ((neg(a) and term(b)) or (term(a) and neg(b))):
        return "requires"
    if op == "EXCLUDES" and term(a) and term(b):
        return "excludes"
    if op == "IMPLIES" and term(a) and neg(b):
        return "excludes"
    if op == "OR" and neg(a) and neg(b):
        return "excludes"
    return None


def edit_histories(acc, source, spec, payload):
    """Histories on ONE model object: every query is asked first (which fills whatever the library may
    cache), then the tree is edited through the public API, then every query is judged again against the
    identity walk of the edited tree."""
    from flamapy.metamodels.fm_metamodel.models import Feature, Relation, FeatureModel
    r = rand.rng("c03-edit", S.digest(spec))

    def fresh():
        m = S.build(spec)
        judge(acc, source, m, payload, None)      # first round of queries (results judged by the main case already)
        return m

    def finish(kind, m, removed=()):
        cls = "history:" + kind
        try:
            probs = judge(acc, cls, m, payload, None, removed)
        except Exception as e:  # noqa: BLE001
            acc.fail(cls, "no-exception", "queries-after-edit", [], f"raises:{type(e).__name__}", str(e)[:200],
                     dict(payload, history=kind))
            return
        if probs:
            seen = set()
            for clause, where, msg in probs:
                if (clause, where) not in seen:
                    seen.add((clause, where))
                    acc.fail(cls, clause, where, [], "disagrees-with-tree-after-edit", msg, dict(payload, history=kind))
        else:
            acc.held(cls, S.digest([kind, spec]))

    def subtree_names(f):
        out, st = [], [f]
        while st:
            x = st.pop()
            out.append(x.name)
            for rel in x.relations:
                st.extend(rel.children)
        return out
    # (1) prune a relation of a feature that has grandchildren below it
    m = fresh()
    feats, rels, owner, parent = walk(m)
    cands = [rel for rel in rels if any(c.relations for c in rel.children)]
    if cands:
        rel = r.choice(cands)
        gone = [n for c in rel.children for n in subtree_names(c)]
        owner[id(rel)].relations.remove(rel)
        finish("prune-subtree", m, gone)
    # (2) move a subtree to another parent (old relation shrinks or disappears, add_relation under the new one)
    m = fresh()
    feats, rels, owner, parent = walk(m)
    movable = [f for f in feats if parent[id(f)] is not None]
    if len(feats) >= 3 and movable:
        f = r.choice(movable)
        sub = set(subtree_names(f))
        dests = [g for g in feats if g.name not in sub and g is not parent[id(f)]]
        if dests:
            q = r.choice(dests)
            p = parent[id(f)]
            for rel in list(p.relations):
                if any(c is f for c in rel.children):
                    rel.children.remove(f)
                    if not rel.children:
                        p.relations.remove(rel)
            q.add_relation(Relation(q, [f], 0, 1))
            finish("move-subtree", m)
    # (3) a feature created with parent=X but attached under Y
    m = fresh()
    feats, rels, owner, parent = walk(m)
    if len(feats) >= 2:
        x, y = r.sample(feats, 2)
        nf = Feature("Attached9", [], parent=x)
        y.add_relation(Relation(y, [nf], 1, 1))
        finish("created-with-other-parent", m)
    # (4) the old root under a new root, in a new FeatureModel
    m = fresh()
    nr = Feature("NewRoot9", [])
    nr.add_relation(Relation(nr, [m.root], 1, 1))
    finish("re-rooted", FeatureModel(nr, list(m.ctcs)))
    # (6) a feature grafted from another model: its old parent there has the SAME NAME as its new parent here
    m = fresh()
    other = S.build(spec)
    feats, rels, owner, parent = walk(m)
    of, orels, oowner, oparent = walk(other)
    cand = [f for f in of if oparent[id(f)] is not None and not f.relations]
    if cand:
        g = r.choice(cand)
        twin_parent = next(f for f in feats if f.name == oparent[id(g)].name)
        for rel in list(oparent[id(g)].relations):
            if any(c is g for c in rel.children):
                rel.children.remove(g)
                if not rel.children:
                    oparent[id(g)].relations.remove(rel)
        g.name = "Grafted9"
        twin_parent.add_relation(Relation(twin_parent, [g], 0, 1))
        finish("grafted-from-same-named-parent", m)
    # (7) a feature replaced, in its relation, by a NEW Feature object of the same name (other flags, no subtree)
    m = fresh()
    feats, rels, owner, parent = walk(m)
    cand = [f for f in feats if parent[id(f)] is not None]
    if cand:
        x = r.choice(cand)
        gone = [n for n in subtree_names(x) if n != x.name]
        new = Feature(x.name, [], is_abstract=not x.is_abstract)
        for rel in parent[id(x)].relations:
            for k, c in enumerate(rel.children):
                if c is x:
                    rel.children[k] = new
        new.parent = parent[id(x)]
        finish("replaced-by-same-named-object", m, gone)
    # (8) a Relation object over features of the model is constructed (a what-if, a membership test) and thrown
    #     away without ever being attached: constructing it is not an edit
    m = fresh()
    feats, rels, owner, parent = walk(m)
    groups = [rel for rel in rels if rel.children]
    if groups:
        rel = r.choice(groups)
        before = S.snapshot_or_none(m)
        probe = Relation(Feature("Detached9", []), list(rel.children), rel.card_min, rel.card_max)
        _ = probe in m.get_relations()
        del probe
        if before is not None and S.snapshot_or_none(m) != before:
            acc.fail("history:detached-relation-constructed", "model-unchanged", "Relation.__init__", [], "mutated",
                     S.first_diff(before, S.snapshot_or_none(m)), dict(payload, history="detached relation constructed"))
        finish("detached-relation-constructed", m)
    # (9) a Relation OBJECT (with its subtree) moved to another feature: detached from its owner, attached with
    #     add_relation() while its own parent field still names the old owner, the field brought in line right
    #     afterwards (and, second form, before attaching); (10) the same with a relation built with parent=None
    for form in ("parent-field-after", "parent-field-before", "built-with-parent-none"):
        m = fresh()
        feats, rels, owner, parent = walk(m)
        cands = [rel for rel in rels if rel.children]
        if not cands or len(feats) < 3:
            break
        rel = r.choice(cands)
        sub = set(n for c in rel.children for n in subtree_names(c))
        dests = [g for g in feats if g.name not in sub and g is not owner[id(rel)]]
        if not dests:
            continue
        q = r.choice(dests)
        owner[id(rel)].relations.remove(rel)
        if form == "parent-field-after":
            q.add_relation(rel)
            rel.parent = q
        elif form == "parent-field-before":
            rel.parent = q
            q.add_relation(rel)
        else:
            nrel = Relation(None, list(rel.children), rel.card_min, rel.card_max)
            q.add_relation(nrel)
            nrel.parent = q
        finish("relation-object-moved:" + form, m)
    # (5) a new root assigned on the same FeatureModel object; the old tree's names must be gone
    m = fresh()
    old_names = [f.name for f in walk(m)[0]]
    m.root = Feature("Lonely9", [])
    finish("root-replaced", m, old_names)


def ctc_listing_history(acc, spec, payload):
    """Constraint-kind listings asked, one expression tree edited IN PLACE (node attributes, no setter), listings
    asked again: every listing must be what FRESH Constraint objects built from the current trees report."""
    from flamapy.core.models.ast import AST
    from flamapy.metamodels.fm_metamodel.models import Constraint
    logical = [k for k, c in enumerate(spec["ctcs"]) if isinstance(c["ast"], list) and S.is_logical_ast(c["ast"])
               and S.ast_depth(c["ast"]) <= 3]
    if not logical:
        return
    r = rand.rng("c03-ctc-edit", S.digest(spec))
    m = S.build(spec)
    getters = ("get_simple_constraints", "get_complex_constraints", "get_requires_constraints", "get_excludes_constraints",
               "get_pseudocomplex_constraints", "get_strictcomplex_constraints", "get_logical_constraints")
    try:
        for g in getters:
            getattr(m, g)()
        k = r.choice(logical)
        if S.inplace_edit_ast(m.ctcs[k].ast, spec["ctcs"][k]["ast"], r, S.feature_names(spec)) is None:
            return
        cur = [S.obs_ast(c.ast.root) for c in m.ctcs]
        fresh = [Constraint(c.name, AST(S.build_ast(a))) for c, a in zip(m.ctcs, cur)]
        for g in getters:
            pred = g.replace("get_", "is_").replace("_constraints", "_constraint")
            want = [i for i, fc in enumerate(fresh) if getattr(fc, pred)()]
            got = [i for i, c in enumerate(m.ctcs) if any(c is x for x in getattr(m, g)())]
            if got != want:
                acc.fail("history:ast-edited-in-place", "constraint-listing", "FeatureModel." + g, [], "stale-listing",
                         f"after an in-place edit of constraint {k} ({cur[k]}): listed {got}, fresh constraints give {want}",
                         dict(payload, history="ast node edited in place"))
                return
        acc.held("history:ast-edited-in-place", S.digest(["ctc-edit", spec]))
    except Exception as e:  # noqa: BLE001
        acc.fail("history:ast-edited-in-place", "no-exception", "constraint-listings", [], f"raises:{type(e).__name__}",
                 str(e)[:200], payload)


def run_case(acc, source, spec, path, seed=0):
    from flamapy.metamodels.fm_metamodel import transformations as T
    payload = {"source": source, "path": path,
               "spec": spec if spec is not None and len(S.feature_names(spec)) <= 40 and len(spec.get("ctcs", [])) <= 200 else None}
    models = []
    if path is not None:
        ok, m = guard(acc, source, "XMLReader", [], payload,
                      lambda: T.XMLReader(os.path.join(corpus.MODELS, path)).transform(), clause="harness-read")
        if ok:
            models.append((source, m, None))
    elif source == "reader:roundtrip":
        import tempfile, shutil
        d = tempfile.mkdtemp(prefix="vf-c03-")
        try:
            m0 = S.build(spec)
            for W, R, ext in ((T.JSONWriter, T.JSONReader, "json"), (T.GlencoeWriter, T.GlencoeReader, "gfm.json"),
                              (T.FeatureIDEWriter, T.FeatureIDEReader, "xml"), (T.UVLWriter, T.UVLReader, "uvl"),
                              (T.AFMWriter, T.AFMReader, "afm")):
                p = os.path.join(d, "m." + ext)
                try:
                    W(p, m0).transform()
                    models.append(("reader:" + R.__name__, R(p).transform(), None))
                except Exception:  # noqa: BLE001 - reader/writer failures belong to C01/C05-C08
                    acc.count("roundtrip-source-unavailable:" + R.__name__)
        finally:
            shutil.rmtree(d, ignore_errors=True)
    else:
        models.append((source, S.build(spec), [c["ast"] for c in spec.get("ctcs", [])]))
    for cls, model, asts in models:
        before = S.snapshot_or_none(model)
        try:
            problems = judge(acc, cls, model, payload, asts)
        except Exception as e:  # noqa: BLE001
            import traceback
            tb = traceback.extract_tb(e.__traceback__)
            inrepo = [f for f in tb if "fm_metamodel" in f.filename or "flamapy/core" in f.filename]
            if inrepo:
                acc.fail(cls, "no-exception", f"{inrepo[-1].name}", [], f"raises:{type(e).__name__}",
                         f"{type(e).__name__}: {e}", payload)
                continue
            raise
        key = S.digest(S.observe(model)) if model.root.relations else None
        if before is not None and before != S.snapshot_or_none(model):
            problems.append(("model-unchanged", "queries", "snapshot differs after read-only queries"))
        if problems:
            seen = set()
            for clause, where, msg in problems:
                if (clause, where) in seen:
                    continue
                seen.add((clause, where))
                acc.fail(cls, clause, where, [], "disagrees-with-tree", msg, payload, key)
        else:
            acc.held(cls, key)
    if source in ("random", "formula-pool") and spec is not None and spec.get("ctcs") and S.digest(spec)[0] in "0123456":
        sub = dict(spec, ctcs=spec["ctcs"][:12])
        ctc_listing_history(acc, sub, payload)
    if source in ("shape", "random") and spec is not None and S.digest(spec)[0] in "01" and len(S.feature_names(spec)) <= 60:
        edit_histories(acc, source, {"root": spec["root"], "ctcs": []}, payload)
    if len(acc.samples) < 3 and source == "random":
        acc.sample({"source": source, "features": len(S.feature_names(spec)), "ctcs": spec["ctcs"][:4]})


def run_shard(desc, acc):
    if desc.get("shard") == 0:
        from ..contracts_run import run_pinned_tests
        run_pinned_tests(acc, ('get_features-once', 'get_relations-once', 'lookup-by-name', 'relation-partition'))
    for source, spec, path in cases(desc):
        run_case(acc, source, spec, path)


def replay(payload, acc):
    if payload.get("spec") is None and payload.get("path") is None:
        acc.inconc("this witness (a model too large to store) is replayed by re-running the tier with the same seed")
        return
    run_case(acc, payload["source"], payload.get("spec"), payload.get("path"))

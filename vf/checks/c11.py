"""C11 - the Clafer export denotes exactly the model's configurations."""
from .. import spec as S, refsem
from ..gen import shapes, rand, formulas, inject
from ..interp import clafer
from . import semops

LEVEL = "translation_validation"
RULE = ("programs = Clafer exports of models of the Clafer fragment (every feature's children are all solitary "
        "or form exactly one xor/or/mux/a..b group): every such tree shape with n<=N features (N=5 quick / 6 "
        "thorough), each without and with 1-3 constraints from the depth<=2 enumeration over the 8 logical "
        "operators, random models up to 12 features with bool/int/float/str attributes (also attribute names "
        "that need quoting). Each export is parsed and interpreted by an independent interpreter of the emitted "
        "subset and compared with the reference configuration set; declaration/use spelling of features and "
        "attributes is compared. Distinct by spec digest; non-trivial when the model has a relation.")
ASSUMPTIONS = ["Clafer semantics: children of an ungrouped clafer are 1..1 unless '?' (0..1); children of a clafer "
               "with group cardinality xor/or/mux/a..b are 0..1 and their number is bounded by the group "
               "cardinality; constraint operators ! not && || xor => <=>",
               "feature names are plain identifiers; attribute names include one class that needs quoting"]
ANCHORS = ["clafer_writer.py:read_features", "clafer_writer.py:parse_group_type",
           "clafer_writer.py:read_feature_attributes", "clafer_writer.py:attributes_definition",
           "clafer_writer.py:serialize_constraint", "clafer_writer.py:fm_to_clafer"]
NSHARDS = 16


def in_fragment(spec):
    for f in S.features(spec["root"]):
        ks = [len(r["children"]) for r in f.get("rels", [])]
        groups = sum(k > 1 for k in ks)
        if groups > 1 or (groups == 1 and len(ks) > 1):
            return False
        for r in f.get("rels", []):
            if len(r["children"]) == 1 and (r["min"], r["max"]) not in ((0, 1), (1, 1)):
                return False
            if r["max"] < 1:
                return False
    return True


def plan(tier, seed):
    return [{"shard": i, "nshards": NSHARDS, "nmax": 5 if tier == "quick" else 6,
             "n_random": 400 if tier == "quick" else 400000, "n_large": 32 if tier == "quick" else 4000} for i in range(NSHARDS)]


def cases(desc):
    i, n, seed = desc["shard"], desc["nshards"], desc["seed"]
    pool = [f for f in formulas.formulas(2) if isinstance(f, list)]
    idx = 0
    for spec in shapes.all_specs(desc["nmax"], shapes.cards_pos):
        if not in_fragment(spec):
            continue
        idx += 1
        if idx % n != i:
            continue
        yield "shape", spec, []
        if len(S.feature_names(spec)) >= 2:
            r = rand.rng(seed, "c11", idx)
            yield "shape+ctc", semops.with_ctcs(spec, r, r.randint(1, 3), pool), []
    for j in range(desc["n_random"]):
        if j % n != i:
            continue
        r = rand.rng(seed, "c11r", j)
        spec = rand.rand_model(r, r.randint(2, 12), n_ctcs=r.choice([0, 1, 2, 3]), ctc_depth=3,
                               group_kinds=("alternative", "or", "mutex", "cardinality"), multi_rel=False,
                               profile=r.choice(["mixed", "deep", "wide"]))
        if not in_fragment(spec):
            continue
        tags = []
        x = r.random()
        feats = list(S.features(spec["root"]))
        if x < 0.6:
            for f in r.sample(feats, r.randint(1, min(3, len(feats)))):
                f["attrs"] = [{"name": nm, "value": v} for nm, v in r.sample(
                    [("cost", r.randint(0, 50)), ("weight", 2.5), ("label", "abc"), ("flag", True), ("flag2", False)],
                    r.randint(1, 3))]
            tags.append("attr:plain")
        if x < 0.12:
            r.choice(feats).setdefault("attrs", []).append({"name": "unit cost", "value": 3})
            tags.append("attr:name-needs-quote")
        if j % 3 == 0 and spec.get("ctcs"):
            # identifiers that contain operator words: plain ones (SENSOR, BRAND...) and ones with non-ASCII letters
            inject.rename_to_opwords(spec, r, inject.OPWORD_NAMES + (inject.OPWORD_NAMES_NONASCII if j % 2 == 0 else []))
            tags.append("name:contains-operator-word")
        yield "random", spec, tags


def judge(spec):
    """None or (clause, symptom, detail)."""
    from flamapy.metamodels.fm_metamodel.transformations import ClaferWriter
    try:
        text = ClaferWriter(None, S.build(spec)).transform()
    except Exception as e:  # noqa: BLE001
        return ("no-exception", f"raises:{type(e).__name__}", f"{type(e).__name__}: {e}"), None
    try:
        names, cfgs, info = clafer.selections(text)
    except clafer.ClaferError as e:
        msg = str(e)
        sym = "operator-untranslated" if any(("'" + o + "'") in msg for o in S.LOGICAL) else "unparseable"
        return ("export-parseable", sym, f"{msg} in export:\n{text[:500]}"), text
    want = S.feature_names(spec)
    if sorted(names) != sorted(want):
        return ("names-every-feature", "features-differ", f"export declares {sorted(names)[:10]} model has {sorted(want)[:10]}"), text
    if info["attr_problems"]:
        return ("same-identifier-declared-and-used", "identifier-mismatch", "; ".join(info["attr_problems"][:3])), text
    want_attrs = sorted((f["name"], a["name"]) for f in S.features(spec["root"]) for a in f.get("attrs", []))
    got_attrs = sorted((f, clafer.unq(a)) for f, a, v in info["attr_uses"])
    if want_attrs != got_attrs:
        return ("names-every-attribute", "attributes-differ", f"{got_attrs[:6]} != {want_attrs[:6]}"), text
    idx, sem = refsem.brute(spec)
    ref = {idx.names_of(m) for m in sem}
    if cfgs != ref:
        return ("same-configurations", "more-configurations" if (cfgs - ref and not ref - cfgs) else
                "fewer-configurations" if (ref - cfgs and not cfgs - ref) else "different-configurations",
                f"|export|={len(cfgs)} |model|={len(ref)} only-export={sorted(map(sorted, cfgs - ref))[:2]} "
                f"only-model={sorted(map(sorted, ref - cfgs))[:2]}"), text
    return None, text


def run_case(acc, source, spec, tags):
    rel_tags = semops.model_tags(spec)
    cls = source + ("|" + "+".join(rel_tags + tags) if rel_tags + tags else "")
    key = S.digest(spec) if spec["root"].get("rels") else None
    acc.programs += 1
    v, text = judge(spec)
    acc.disagreements_checked += 1
    if v is None:
        acc.held(cls, key)
    else:
        acc.fail(cls, v[0], "clafer", [], v[1], v[2], {"source": source, "spec": spec, "tags": tags}, key)
    if len(acc.samples) < 3 and source == "random" and spec.get("ctcs") and text:
        acc.sample({"spec": spec, "clafer": text[:700]})


def structural(acc, spec, source):
    from flamapy.metamodels.fm_metamodel.transformations import ClaferWriter
    cls = "structure:" + source
    key = S.digest(["clafer-structure", spec])
    acc.programs += 1
    try:
        text = ClaferWriter(None, S.build(spec)).transform()
        got = clafer.structure(text)
    except clafer.ClaferError as e:
        acc.fail(cls, "export-parseable", "clafer", [], "unparseable", str(e)[:200], {"source": source}, key)
        return
    except Exception as e:  # noqa: BLE001
        acc.fail(cls, "no-exception", "clafer", [], f"raises:{type(e).__name__}", str(e)[:200], {"source": source}, key)
        return
    acc.disagreements_checked += 1
    want_attrs = sorted((f["name"], a["name"]) for f in S.features(spec["root"]) for a in f.get("attrs", []))
    got_attrs = sorted((f["name"], a) for f in S.features(got["root"]) for a in f.get("attr_names", []))
    if want_attrs != got_attrs:
        acc.fail(cls, "names-every-attribute", "clafer", [], "attributes-differ",
                 f"attributes by owner: export {got_attrs[:4]}... model {want_attrs[:4]}... first difference "
                 f"{S.first_diff(want_attrs, got_attrs)}"[:300], {"source": source, "spec": spec if len(S.feature_names(spec)) <= 60 else None, "tags": []}, key)
        return
    if S.canon_tree(got["root"], ()) != S.canon_tree(spec["root"], ()):
        acc.fail(cls, "same-tree", "clafer", [], "tree-differs",
                 str(S.first_diff(S.canon_tree(spec["root"], ()), S.canon_tree(got["root"], ())))[:300],
                 {"source": source, "spec": spec if len(S.feature_names(spec)) <= 60 else None, "tags": []}, key)
    else:
        acc.held(cls, key)


def history_inplace(acc, spec, seed, j):
    """Export, edit a constraint's expression tree in place (node attributes; also a feature renamed together with
    its term nodes), export again with a fresh writer: the second export must equal the export of a fresh build."""
    import copy
    from flamapy.metamodels.fm_metamodel.transformations import ClaferWriter
    if not spec.get("ctcs"):
        return
    r = rand.rng(seed, "c11inplace", j)
    names = S.feature_names(spec)
    m = S.build(spec)
    try:
        w_pre = ClaferWriter(None, m)     # constructed before the edits, asked to transform after them
        first = ClaferWriter(None, m).transform()
    except Exception:  # noqa: BLE001
        return
    es = copy.deepcopy(spec)
    if len(names) >= 2 and not spec.get("share_nodes"):
        # the LIST of constraints is edited too: one more, appended in place or by reassigning the list
        from flamapy.core.models.ast import AST
        from flamapy.metamodels.fm_metamodel.models.feature_model import Constraint
        added = {"name": "added-after-first-export", "ast": ["REQUIRES", names[-1], names[0]]}
        newc = Constraint(added["name"], AST(S.build_ast(added["ast"])))
        if r.random() < 0.5:
            m.ctcs.append(newc)
        else:
            m.ctcs = list(m.ctcs) + [newc]
        es["ctcs"].append(added)
    if r.random() < 0.5:
        i = r.randrange(len(spec["ctcs"]))
        t3 = S.inplace_edit_ast(m.ctcs[i].ast, spec["ctcs"][i]["ast"], r, names, ("AND", "OR", "IMPLIES"))
        if t3 is None:
            return
        es["ctcs"][i]["ast"] = t3
        kind = "node"
    else:
        used = [n for n in names if any(n in S.ast_names(c["ast"]) for c in spec["ctcs"])]
        if not used:
            return
        old, new = r.choice(used), "Renamed" + str(r.randint(100, 999))
        if new in names:
            return
        m.get_feature_by_name(old).name = new
        for c in m.ctcs:
            st = [c.ast.root]
            while st:
                nd = st.pop()
                if nd is None:
                    continue
                if nd.left is None and nd.right is None and nd.data == old:
                    nd.data = new
                st.extend([nd.left, nd.right])
        for f in S.features(es["root"]):
            if f["name"] == old:
                f["name"] = new
        es["ctcs"] = [{"name": c["name"], "ast": S.rename_ast(c["ast"], {old: new})} for c in es["ctcs"]]
        kind = "rename"
    cls = "history:in-place-ast-" + kind
    key = S.digest(["c11-inplace", es])
    acc.programs += 1
    try:
        got = ClaferWriter(None, m).transform()
        want = ClaferWriter(None, S.build(es)).transform()
    except Exception as e:  # noqa: BLE001
        if judge(es)[0] is None:
            acc.fail(cls, "no-exception", "clafer", [], f"raises:{type(e).__name__}", str(e)[:200], {"source": "history", "spec": es, "tags": []}, key)
        return
    acc.disagreements_checked += 1
    if got != want:
        acc.fail(cls, "same-configurations", "clafer", [], "stale-after-in-place-edit",
                 f"export after in-place edit differs from the export of a fresh build: {S.first_diff(got.splitlines(), want.splitlines())}"[:300],
                 {"source": "history", "spec": es, "tags": [], "before": spec}, key)
    else:
        acc.held(cls, key)
    # the writer constructed before the edits writes the model as it is - or, if it copies at construction, as it
    # was - never a mixture of the two
    cls = "history:writer-constructed-before-edit"
    try:
        pre = w_pre.transform()
    except Exception as e:  # noqa: BLE001
        acc.fail(cls, "no-exception", "clafer", [], f"raises:{type(e).__name__}", str(e)[:200], {"source": "history", "spec": es, "tags": [], "before": spec}, key)
        return
    if pre != want and pre != first:
        acc.fail(cls, "same-configurations", "clafer", [], "mixed-export",
                 "a writer constructed before in-place edits exported neither the edited nor the original model: "
                 f"{S.first_diff(pre.splitlines(), want.splitlines())}"[:300], {"source": "history", "spec": es, "tags": [], "before": spec}, key)
    else:
        acc.held(cls, S.digest(["c11-pre", es]))


class _Level(int):
    pass


class _Ratio(float):
    pass


class _Proto(str):
    pass


def subclass_values(acc, seed, j):
    """Attribute values that are instances of SUBCLASSES of int / float / str (enum members, user types) are int /
    float / str values: the export is the export of the same model with the plain values."""
    import enum
    from flamapy.metamodels.fm_metamodel.transformations import ClaferWriter

    class Prio(enum.IntEnum):
        LOW = 1
        HIGH = 3
    r = rand.rng(seed, "c11subclass", j)
    spec = rand.rand_model(r, r.randint(4, 8), n_ctcs=1, ctc_depth=1, group_kinds=("alternative", "or"), multi_rel=False)
    if not in_fragment(spec):
        return
    fs = list(S.features(spec["root"]))
    plain = [("priority", 3), ("ratio", 2.5), ("protocol", "mqtt"), ("level", 7)]
    for k, (nm, v) in enumerate(plain):
        fs[k % len(fs)].setdefault("attrs", []).append({"name": nm, "value": v})
    special = {"priority": Prio.HIGH, "ratio": _Ratio(2.5), "protocol": _Proto("mqtt"), "level": _Level(7)}
    m_plain, m_sub = S.build(spec), S.build(spec)
    stack = [m_sub.root]
    while stack:
        f = stack.pop()
        for a in f.get_attributes():
            if a.name in special:
                a.default_value = special[a.name]
        for rel in f.relations:
            stack.extend(rel.children)
    acc.programs += 1
    key = S.digest(["c11-subclass", spec])
    try:
        t_plain = ClaferWriter(None, m_plain).transform()
        t_sub = ClaferWriter(None, m_sub).transform()
    except Exception as e:  # noqa: BLE001
        acc.fail("attr:subclass-values", "no-exception", "clafer", [], f"raises:{type(e).__name__}", str(e)[:200], {"source": "subclass", "spec": spec, "tags": []}, key)
        return
    acc.disagreements_checked += 1
    if t_plain != t_sub:
        acc.fail("attr:subclass-values", "names-every-attribute", "clafer", [], "attributes-differ",
                 f"values of int/float/str subclasses are exported differently from the plain values: {S.first_diff(t_plain.splitlines(), t_sub.splitlines())}"[:300],
                 {"source": "subclass", "spec": spec, "tags": []}, key)
    else:
        acc.held("attr:subclass-values", key)


def run_shard(desc, acc):
    for j in range(16):
        if j % desc["nshards"] == desc["shard"]:
            subclass_values(acc, desc["seed"], j)
    for j, (source, spec, tags) in enumerate(cases(desc)):
        run_case(acc, source, spec, tags)
        if source == "random" or j % 40 == 0:
            history_inplace(acc, spec, desc["seed"], j)
    i, n, seed = desc["shard"], desc["nshards"], desc["seed"]
    for j in range(desc.get("n_large", 0)):
        if j % n == i:
            r = rand.rng(seed, "c11large", j)
            spec = rand.rand_model(r, r.randint(60, 200), n_ctcs=0, profile=r.choice(["mixed", "deep", "wide"]),
                                   group_kinds=("alternative", "or", "mutex", "cardinality"), multi_rel=False)
            if in_fragment(spec):
                structural(acc, spec, "large-random")
    for j, depth in enumerate((12, 22, 30, 45, 66, 70, 100, 131)):
        if j % n == i:
            root = cur = {"name": "D0", "rels": []}
            for q in range(1, depth):
                nxt = {"name": f"D{q}", "rels": []}
                if q % 4 == 0:
                    cur["rels"].append({"min": 1, "max": 2, "children": [nxt, {"name": f"E{q}", "rels": []}]})
                else:
                    cur["rels"].append({"min": q % 2, "max": 1, "children": [nxt]})
                if q % 5 == 0 or q >= depth - 3:
                    # attributes all the way down (their lines are indented one level deeper than their owner)
                    nxt["attrs"] = [{"name": "power", "value": q}] + ([{"name": "label", "value": "x"}] if q % 2 else [])
                cur = nxt
            cur["rels"].append({"min": 0, "max": 1, "children": [{"name": "Leaf1", "rels": []}]})
            cur["rels"].append({"min": 0, "max": 1, "children": [{"name": "Leaf2", "rels": [], "attrs": [{"name": "power", "value": 1}]}]})
            structural(acc, {"root": root, "ctcs": []}, f"deep-chain-{depth}")
    for j in range(32):
        if j % n == i:
            r = rand.rng(seed, "c11case", j)
            base = rand.rand_model(r, r.randint(5, 12), group_kinds=("alternative", "or", "mutex"), multi_rel=False, solitary_kinds=("optional", "optional", "mandatory"))
            if not in_fragment(base):
                continue
            nm = S.feature_names(base)
            a, b, c = nm[1], nm[2], nm[-1] if len(nm) > 3 else nm[0]   # c: a non-root target when there is one
            twin = a.swapcase()
            if twin in nm or twin == a:
                continue
            for f in S.features(base["root"]):
                if f["name"] == b:
                    f["name"] = twin
            base["ctcs"] = [{"name": "c0", "ast": ["IMPLIES", a, c]}, {"name": "c1", "ast": ["IMPLIES", twin, c]},
                            {"name": "c2", "ast": ["EXCLUDES", a, twin]}]
            run_case(acc, "case-colliding-names", base, [])
    # one constraint over 11-13 distinct features
    for j in range(6):
        if j % n == i:
            r = rand.rng(seed, "c11wide", j)
            k = r.randint(11, 13)
            used = {"W"}
            nms = [rand.plain_name(r, used) for _ in range(k)]      # (no numeric suffix pattern: names must not
            kids = [{"name": x, "rels": []} for x in nms]            #  be derivable from one another)
            spec = {"root": {"name": "W", "rels": [{"min": 0, "max": 1, "children": [c]} for c in kids]}, "ctcs": []}
            t = nms[0]
            for q in range(1, k):
                t = [r.choice(["AND", "OR", "IMPLIES"]), t, nms[q]]
            spec["ctcs"] = [{"name": "wide", "ast": t}]
            run_case(acc, "wide-constraint", spec, [])
    for wi, k in enumerate((9, 10, 11, 12, 13)):
        if wi % n == i:
            for mn, mx in ((1, 1), (1, k), (0, 1), (2, k - 1), (k, k), (0, k), (3, 3), (0, 2)):
                kids = [{"name": f"G{j}", "rels": []} for j in range(k)]
                spec = {"root": {"name": "W", "rels": [{"min": mn, "max": mx, "children": kids}]}, "ctcs": []}
                run_case(acc, "wide-group", spec, [])
                structural(acc, spec, "wide-group")


def replay(payload, acc):
    run_case(acc, payload["source"], payload["spec"], payload.get("tags", []))

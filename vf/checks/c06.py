"""C06 - AFM round trip (round-trip monitor, see vf/checks/roundtrip.py)."""
from . import roundtrip as RT

LEVEL = "exploration"
FMT = "afm"
RULE = ("cases = (base, injections): a minimal random base model (6-15 features; thorough also 20-60) of "
        "one-child mandatory/optional relations with plain names, plus one injection per input class of the "
        "AFM fragment (relation kinds, flags, attribute kinds, one constraint per operator and nesting shape, one "
        "renamed+referenced feature per name class), plus random combinations of 2-4 injections with delta "
        "attribution; each case runs K write/read cycles (K=3 quick / 5 thorough) of the real writer and reader "
        "through files. Distinct by digest of the case spec; every case has at least 6 features.")
ASSUMPTIONS = ["fixed-point formulation of 'any number of cycles': once observe(m_n+1)==observe(m_n) and "
               "text_n+1==text_n every later cycle repeats it, given writer/reader determinism (monitored by C12)",
               "tree comparison is order-insensitive inside a relation and among the relations of a feature",
               "constraints are compared positionally by complete truth tables (non-logical sub-terms as atoms)"]
ANCHORS = ['afm_writer.py:AFMWriter.recursive_relationship_read', 'afm_writer.py:AFMWriter.read_relation', 'afm_writer.py:AFMWriter.recursive_constraint_read', 'afm_reader.py:AFMReader.read_children', 'afm_reader.py:AFMReader.build_ast_node']


def plan(tier, seed):
    return RT.plan_for(tier, FMT)


def run_shard(desc, acc):
    RT.run_shard_for(FMT, "C06", desc, acc)


def replay(payload, acc):
    RT.replay_for(payload, acc)

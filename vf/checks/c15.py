"""C15 - atomic sets partition the features into always-co-selected groups."""
from .. import spec as S
from ..acc import guard
from . import semops

LEVEL = "exploration"
RULE = ("same model space as C13; distinct by spec digest, non-trivial when the model has a relation")
ASSUMPTIONS = ["co-selection is decided over the harness's enumerated configuration set (<=14 features); "
               "for larger trees only the partition and mandatory-chain clauses are judged"]
ANCHORS = ["fm_atomic_sets.py:compute_atomic_sets", "fm_atomic_sets.py:get_atomic_sets",
           "feature_model.py:Feature.is_mandatory"]
plan = semops.plan


def judge(acc, source, spec, model, idx, sem_t, sem_c, tags, cls, payload, op=None):
    from flamapy.metamodels.fm_metamodel.operations import FMAtomicSets
    W = "FMAtomicSets"
    ok, res = guard(acc, cls, W, tags, payload, lambda: semops.call_under_default_limit(spec, lambda: (op or FMAtomicSets()).execute(model).get_result()))
    if not ok:
        return
    key = S.digest(spec) if S.feature_names(spec)[1:] else None
    sets = [[f.name for f in s] for s in res]
    flat = [n for s in sets for n in s]
    allnames = S.feature_names(spec)
    if any(len(s) == 0 for s in sets):
        acc.fail(cls, "no-empty-set", W, tags, "empty-set", f"{sets}", payload, key)
        return
    if sorted(flat) != sorted(allnames):
        acc.fail(cls, "partition", W, tags, "missing-or-duplicated",
                 f"sets={sets} features={allnames}", payload, key)
        return
    owner = {n: i for i, s in enumerate(sets) for n in s}
    for f, r in S.relations(spec):
        if len(r["children"]) == 1 and (r["min"], r["max"]) == (1, 1):
            c = r["children"][0]["name"]
            if owner[c] != owner[f["name"]]:
                acc.fail(cls, "mandatory-child-with-parent", W, tags, "finer-than-mandatory-chain",
                         f"{c} not with {f['name']}: {sets}", payload, key)
                return
    if sem_c is not None:
        for s in sets:
            bits = [idx.bit[n] for n in s]
            for m in sem_c:
                first = bool(m & bits[0])
                if any(bool(m & b) != first for b in bits[1:]):
                    acc.fail(cls, "co-selected", W, tags, "split-in-some-configuration",
                             f"set {s} differs in configuration {sorted(idx.names_of(m))}", payload, key)
                    return
        acc.count("co-selection-compared")
    acc.held(cls, key)


def run_shard(desc, acc):
    from flamapy.metamodels.fm_metamodel.operations import FMAtomicSets
    semops.run(desc, acc, judge, "C15", FMAtomicSets)


def replay(payload, acc):
    semops.run_case(acc, judge, "C15", payload["source"], payload["spec"])

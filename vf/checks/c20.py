"""C20 - equality and hashing of features, relations, constraints and models."""
import copy

from .. import spec as S
from ..acc import guard
from ..gen import shapes, rand, formulas

LEVEL = "exploration"
RULE = ("pairs (m, m'): m' = independently rebuilt copy with children inside relations, relations inside "
        "features and constraints in the model shuffled (separately and together), expected equal with equal "
        "hashes; and m' = every applicable single-point edit of m (rename a feature, move a feature to another "
        "parent, merge/split a relation, change one card_min/card_max, change the root, change one operator or "
        "operand of a constraint, add/remove a constraint), expected unequal. m ranges over every tree shape "
        "with n<=5 (quick) / 6 (thorough) features and random models up to 40 features with constraints. "
        "Features, relations and constraints are also compared element-wise. Distinct by digest of the pair.")
ASSUMPTIONS = ["'differs beyond letter case' is generated as a different operator, a different operand name "
               "(not a case variant) or a different constraint count",
               "edited models stay well-formed trees with unique names"]
ANCHORS = ["feature_model.py:Feature.__eq__", "feature_model.py:Feature.__hash__",
           "feature_model.py:Relation.__eq__", "feature_model.py:Relation.__hash__",
           "feature_model.py:Constraint.__eq__", "feature_model.py:Constraint.__hash__",
           "feature_model.py:FeatureModel.__eq__", "feature_model.py:FeatureModel.__hash__",
           "feature_model.py:Feature.__lt__"]
NSHARDS = 16
CONTRACTS = ('eq',)   # ambient icontract contracts active in every shard of this check


def plan(tier, seed):
    return [{"shard": i, "nshards": NSHARDS, "nmax": 5 if tier == "quick" else 6,
             "n_random": 200 if tier == "quick" else 20000} for i in range(NSHARDS)]


def permuted(spec, r, what):
    s = copy.deepcopy(spec)
    for f in S.features(s["root"]):
        if "rels" in what:
            r.shuffle(f["rels"])
        if "children" in what:
            for rel in f["rels"]:
                r.shuffle(rel["children"])
    if "ctcs" in what:
        r.shuffle(s["ctcs"])
    return s


def edits(spec, r):
    """Yield (edit name, edited spec); every edit changes the model structurally."""
    names = S.feature_names(spec)
    fresh = "Zz9" + str(len(names))
    feats = list(S.features(spec["root"]))
    # rename one feature (root and non-root)
    for target in {names[0], r.choice(names)}:
        s = copy.deepcopy(spec)
        for f in S.features(s["root"]):
            if f["name"] == target:
                f["name"] = fresh
        yield "rename:" + ("root" if target == names[0] else "feature"), s
    # change one cardinality
    rels = [(f, ri) for f in feats for ri in range(len(f["rels"]))]
    if rels:
        f0, ri = r.choice(rels)
        for field, delta in (("min", 1), ("max", 1), ("min", -1)):
            s = copy.deepcopy(spec)
            for f in S.features(s["root"]):
                if f["name"] == f0["name"]:
                    f["rels"][ri][field] += delta
            yield "card:" + field, s
    # move one leaf to another parent (as a new optional relation)
    leaves = [f for f in feats if not f["rels"] and f["name"] != names[0]]
    if leaves and len(names) >= 3:
        leaf = r.choice(leaves)
        par = S.parents(spec)
        others = [n for n in names if n not in (leaf["name"], par[leaf["name"]])]
        if others:
            dest = r.choice(others)
            s = copy.deepcopy(spec)
            moved = None
            for f in S.features(s["root"]):
                for rel in list(f["rels"]):
                    for c in list(rel["children"]):
                        if c["name"] == leaf["name"]:
                            rel["children"].remove(c)
                            moved = c
                            if not rel["children"]:
                                f["rels"].remove(rel)
            for f in S.features(s["root"]):
                if f["name"] == dest and moved is not None:
                    f["rels"].append({"min": 0, "max": 1, "children": [moved]})
                    moved = None
            yield "move", s
    # split a group / merge two relations of one feature
    for f0 in feats:
        groups = [ri for ri, rel in enumerate(f0["rels"]) if len(rel["children"]) > 1]
        if groups:
            s = copy.deepcopy(spec)
            for f in S.features(s["root"]):
                if f["name"] == f0["name"]:
                    rel = f["rels"][groups[0]]
                    c = rel["children"].pop()
                    f["rels"].append({"min": rel["min"], "max": rel["max"], "children": [c]})
            yield "split-relation", s
            break
    for f0 in feats:
        if len(f0["rels"]) >= 2:
            s = copy.deepcopy(spec)
            for f in S.features(s["root"]):
                if f["name"] == f0["name"]:
                    b = f["rels"].pop()
                    f["rels"][0]["children"].extend(b["children"])
            yield "merge-relations", s
            break
    # change the root: the root swaps places with one of its childless children
    for rel in spec["root"]["rels"]:
        for c in rel["children"]:
            if not c["rels"]:
                s = copy.deepcopy(spec)
                a, b = s["root"]["name"], c["name"]
                for f in S.features(s["root"]):
                    f["name"] = b if f["name"] == a else a if f["name"] == b else f["name"]
                yield "swap-root", s
                break
        else:
            continue
        break
    # constraints
    if spec.get("ctcs"):
        i = r.randrange(len(spec["ctcs"]))
        ast = spec["ctcs"][i]["ast"]
        s = copy.deepcopy(spec)
        s["ctcs"][i]["ast"] = change_op(ast)
        yield "ctc:operator", s
        s = copy.deepcopy(spec)
        s["ctcs"][i]["ast"] = change_operand(ast, fresh)
        yield "ctc:operand", s
        s = copy.deepcopy(spec)
        del s["ctcs"][i]
        yield "ctc:remove", s
        # an operand replaced by a DIFFERENT name that has the same casefold() (ß/ss, ligatures, final sigma...):
        # "beyond letter case" - these are other names
        for k, c in enumerate(spec["ctcs"]):
            tw = {n: fold_twin(n) for n in S.ast_names(c["ast"]) if isinstance(n, str) and fold_twin(n)}
            if tw:
                n0 = sorted(tw)[0]
                s = copy.deepcopy(spec)
                s["ctcs"][k]["ast"] = S.rename_ast(c["ast"], {n0: tw[n0]})
                yield "ctc:operand-fold-twin", s
                break
    s = copy.deepcopy(spec)
    s["ctcs"].append({"name": "extra", "ast": ["REQUIRES", names[0], fresh]})
    yield "ctc:add", s
    # multiplicities: [x, x, y] versus [x, y, y] (same length, same distinct constraints)
    if len(names) >= 2:
        x, y = ["REQUIRES", names[0], names[1]], ["EXCLUDES", names[1], names[0]]
        a = copy.deepcopy(spec)
        a["ctcs"] = list(a["ctcs"]) + [{"name": "m1", "ast": x}, {"name": "m2", "ast": x}, {"name": "m3", "ast": y}]
        b = copy.deepcopy(spec)
        b["ctcs"] = list(b["ctcs"]) + [{"name": "m1", "ast": x}, {"name": "m2", "ast": y}, {"name": "m3", "ast": y}]
        yield "ctc:multiplicity", (a, b)
    # names whose concatenation coincides with another name: an alternative group {B, C} under P and a
    # mandatory child named "B C" under X, versus the same features with the two owners swapped
    if len(names) >= 2:
        base = copy.deepcopy(spec)
        fs = list(S.features(base["root"]))
        p_, x_ = fs[0], fs[-1] if fs[-1] is not fs[0] else None
        if x_ is not None:
            n1, n2 = "Jb" + fresh, "Jc" + fresh
            joined = " ".join(sorted([n1, n2]))
            a = copy.deepcopy(base)
            b = copy.deepcopy(base)
            for m_, first in ((a, True), (b, False)):
                fm = list(S.features(m_["root"]))
                pp, xx = fm[0], fm[-1]
                grp = {"min": 1, "max": 1, "children": [{"name": n1, "rels": []}, {"name": n2, "rels": []}]}
                one = {"min": 1, "max": 1, "children": [{"name": joined, "rels": []}]}
                (pp if first else xx)["rels"].append(grp)
                (xx if first else pp)["rels"].append(one)
            yield "names:ambiguous-join", (a, b)


def change_op(ast):
    if not isinstance(ast, list):
        return ["NOT", ast]
    if ast[0] == "NOT":
        return ast[1] if not isinstance(ast[1], list) else ["NOT", change_op(ast[1])]
    order = list(S.BINLOG)
    return [order[(order.index(ast[0]) + 1) % len(order)]] + ast[1:]


def change_operand(ast, fresh):
    if not isinstance(ast, list):
        return fresh
    return [ast[0], change_operand(ast[1], fresh)] + ast[2:]


def cases(desc):
    i, n, seed = desc["shard"], desc["nshards"], desc["seed"]
    pool = [f for f in formulas.formulas(2) if isinstance(f, list)]
    idx = 0
    for spec in shapes.all_specs(desc["nmax"], shapes.cards_all):
        idx += 1
        if idx % n == i:
            r = rand.rng(seed, "c20s", idx)
            if len(S.feature_names(spec)) >= 2 and r.random() < 0.5:
                from .semops import with_ctcs
                spec = with_ctcs(spec, r, r.randint(1, 3), pool)
            yield "shape", spec, r
    for j in range(desc["n_random"]):
        if j % n == i:
            r = rand.rng(seed, "c20r", j)
            spec = rand.rand_model(r, r.randint(2, 40), n_ctcs=r.randint(0, 5), ctc_depth=2,
                                   group_kinds=("alternative", "or", "mutex", "cardinality"), abstract_p=0.1)
            if j % 3 == 0:
                spec = case_colliding(spec, r)
                yield "random-case-colliding-names", spec, r
            elif j % 3 == 1:
                yield "random-sort-tie-and-foldable-names", special_names(spec, r), r
            else:
                yield "random", spec, r


def case_colliding(spec, r):
    """Rename some features so that several names differ only in letter case (distinct features!)."""
    feats = list(S.features(spec["root"]))
    names = set(S.feature_names(spec))
    ren = {}
    for f in r.sample(feats, max(1, len(feats) // 2)):
        for cand in (f["name"].lower(), f["name"].upper(), f["name"].swapcase()):
            if cand not in names and f["name"] not in ren.values():
                # pair (f, g): g gets a case variant of f's name
                g = r.choice(feats)
                if g is f or g["name"] in ren or g["name"] in ren.values():
                    break
                ren[g["name"]] = cand
                names.add(cand)
                break

    def sub(t):
        if isinstance(t, list):
            return [t[0]] + [sub(x) for x in t[1:]]
        return ren.get(t, t)
    for f in feats:
        f["name"] = ren.get(f["name"], f["name"])
    for c in spec["ctcs"]:
        c["ast"] = sub(c["ast"])
    return spec


FOLD = {"ß": "ss", "ﬁ": "fi", "µ": "μ", "ſ": "s", "ς": "σ"}   # same casefold(), different lower()
FOLDABLE_NAMES = ["Paket-Maße", "Größe x", "ﬁle-1", "µ-meter", "ſet-a", "λόγος-1", "Straße 7"]
TIE_NAMES = [("V1", "V01"), ("7", "007"), ("x3", "x٣"), ("Item2", "Item02"), ("a10b", "a010b"), ("F1", "F1 ")]


def fold_twin(name):
    out = name
    for a, b in FOLD.items():
        if a in out:
            return out.replace(a, b, 1)
    return None


def special_names(spec, r):
    """Some features renamed to names that fold/sort together with another DISTINCT name: pairs that tie under a
    'natural' or zero-padding-insensitive order (siblings in one relation where possible), and names containing
    characters whose casefold() differs from lower()."""
    feats = list(S.features(spec["root"]))
    names = set(S.feature_names(spec))
    ren = {}
    sib = [rel["children"] for f in feats for rel in f["rels"] if len(rel["children"]) >= 2]
    pairs = list(TIE_NAMES)
    r.shuffle(pairs)
    for ch, (a, b) in zip(r.sample(sib, min(len(sib), 2)), pairs):
        x, y = r.sample(ch, 2)
        if a not in names and b not in names and x["name"] not in ren and y["name"] not in ren:
            ren[x["name"]], ren[y["name"]] = a, b
            names |= {a, b}
    rest = [f for f in feats if f["name"] not in ren]
    for f, nm in zip(r.sample(rest, min(len(rest), 2)), r.sample(FOLDABLE_NAMES, 2)):
        if nm not in names:
            ren[f["name"]] = nm
            names.add(nm)
    for f in feats:
        f["name"] = ren.get(f["name"], f["name"])
    for c in spec["ctcs"]:
        c["ast"] = S.rename_ast(c["ast"], ren)
    # one owner with a relation over {Ja, Jb} and a relation (same cardinality) over the single child "Ja Jb"
    owner = r.choice(feats)
    tag = str(len(feats))
    if ("Ja" + tag) not in names:
        card = r.choice([(1, 1), (0, 1)])
        owner["rels"].append({"min": card[0], "max": card[1], "children": [{"name": "Ja" + tag, "rels": []}, {"name": "Jb" + tag, "rels": []}]})
        owner["rels"].append({"min": card[0], "max": card[1], "children": [{"name": f"Ja{tag} Jb{tag}", "rels": []}]})
    new = S.feature_names(spec)
    used = [n for n in new if fold_twin(n)]
    for k, n in enumerate(used[:2]):
        spec["ctcs"].append({"name": f"fold{k}", "ast": ["IMPLIES", n, new[0] if new[0] != n else new[-1]]})
    return spec


def contract(acc, cls, payload, a, b, expect_equal, what, edit):
    """The equality contract on one pair of objects of the same kind."""
    tags = []
    res = {}

    def f():
        res["ab"], res["ba"] = (a == b), (b == a)
        res["ne"] = (a != b)
        res["aa"], res["bb"] = (a == a), (b == b)
        res["ha"], res["hb"] = hash(a), hash(b)
        res["ha2"] = hash(a)
    ok, _ = guard(acc, cls, what, tags, payload, f)
    if not ok:
        return False
    msgs = []
    if not (res["aa"] is True and res["bb"] is True):
        msgs.append(("reflexive", "x == x is false"))
    if res["ab"] != res["ba"]:
        msgs.append(("symmetric", f"a==b {res['ab']} but b==a {res['ba']}"))
    if res["ne"] == res["ab"]:
        msgs.append(("ne-is-not-eq", f"a!=b {res['ne']} and a==b {res['ab']}"))
    if res["ab"] and res["ha"] != res["hb"]:
        msgs.append(("equal-hash", "a == b with different hashes"))
    if res["ha"] != res["ha2"]:
        msgs.append(("hash-stable", "hash(a) changed between two calls"))
    if expect_equal is True and not res["ab"]:
        msgs.append(("permuted-copy-equal", f"{what}: rebuilt/permuted copy compares unequal ({edit})"))
    if expect_equal is True and res["ab"] and res["ha"] != res["hb"]:
        msgs.append(("permuted-copy-equal", f"{what}: permuted copy hashes differently ({edit})"))
    if expect_equal is False and res["ab"]:
        msgs.append(("edited-unequal", f"{what}: edited object compares equal ({edit})"))
    if expect_equal is True:
        d = {a: 1}
        if b not in d or b not in {a}:
            msgs.append(("dict-member", "copy not found in dict/set containing the original"))
    if expect_equal is False:
        if b in {a: 1} or b in {a}:
            msgs.append(("dict-member", f"edited object found in dict/set of the original ({edit})"))
    for clause, m in msgs:
        acc.fail(cls, clause, what, tags, "contract-broken", m, payload)
    acc.count("pairs:" + what)
    return not msgs


def inplace_histories(acc, source, spec, r, payload):
    from flamapy.core.models.ast import AST
    good = True
    names = S.feature_names(spec)
    fresh = "Zz9" + str(len(names))
    # (1) constraint AST replaced through the property setter
    if spec.get("ctcs"):
        i = r.randrange(len(spec["ctcs"]))
        for mk in (change_op, lambda a: change_operand(a, fresh)):
            m, before = S.build(spec), S.build(spec)
            _ = (m == before, hash(m), sorted(m.ctcs), [hash(c) for c in m.ctcs])
            es = copy.deepcopy(spec)
            es["ctcs"][i]["ast"] = mk(spec["ctcs"][i]["ast"])
            if S.digest(es["ctcs"][i]["ast"]).lower() == S.digest(spec["ctcs"][i]["ast"]).lower():
                continue
            m.ctcs[i].ast = AST(S.build_ast(es["ctcs"][i]["ast"]))
            p2 = dict(payload, other=es, edit="in-place:ctc.ast-setter")
            good &= contract(acc, source, p2, m, before, False, "FeatureModel", "in-place ast edit vs pre-edit copy")
            good &= contract(acc, source, p2, m, S.build(es), True, "FeatureModel", "in-place ast edit vs fresh build")
            good &= contract(acc, source, p2, m.ctcs[i], before.ctcs[i], False, "Constraint", "in-place ast edit vs pre-edit copy")
            good &= contract(acc, source, p2, m.ctcs[i], S.build(es).ctcs[i], True, "Constraint", "in-place ast edit vs fresh build")
            acc.count("history:in-place-ast")
        # node attributes assigned directly (same AST object, no setter)
        m, before = S.build(spec), S.build(spec)
        _ = (m == before, hash(m), sorted(m.ctcs), [hash(c) for c in m.ctcs])
        t3 = S.inplace_edit_ast(m.ctcs[i].ast, spec["ctcs"][i]["ast"], r, names + [fresh], ("AND", "OR", "IMPLIES", "EXCLUDES"))
        if t3 is not None and str(S.build_ast(t3)).lower() != str(S.build_ast(spec["ctcs"][i]["ast"])).lower():
            es = copy.deepcopy(spec)
            es["ctcs"][i]["ast"] = t3
            p2 = dict(payload, other=es, edit="in-place:ast-node")
            good &= contract(acc, source, p2, m, before, False, "FeatureModel", "in-place node edit vs pre-edit copy")
            good &= contract(acc, source, p2, m, S.build(es), True, "FeatureModel", "in-place node edit vs fresh build")
            good &= contract(acc, source, p2, m.ctcs[i], before.ctcs[i], False, "Constraint", "in-place node edit vs pre-edit copy")
            acc.count("history:in-place-ast-node")
    # (2) a feature renamed / a cardinality changed in place after comparisons
    m, before = S.build(spec), S.build(spec)
    _ = (m == before, hash(m), hash(m.root), [hash(x) for x in m.get_relations()])
    feats, rels = all_objects(m)
    f = r.choice(feats)
    old = f.name
    f.name = fresh
    es = copy.deepcopy(spec)
    for x in S.features(es["root"]):
        if x["name"] == old:
            x["name"] = fresh
    p2 = dict(payload, other=es, edit="in-place:feature.name")
    good &= contract(acc, source, p2, m, before, False, "FeatureModel", "in-place rename vs pre-edit copy")
    good &= contract(acc, source, p2, m, S.build(es), True, "FeatureModel", "in-place rename vs fresh build")
    acc.count("history:in-place-rename")
    if rels:
        m, before = S.build(spec), S.build(spec)
        _ = (m == before, hash(m), [hash(x) for x in m.get_relations()], sorted(m.get_relations()))
        _, rels = all_objects(m)
        rel = r.choice(rels)
        rel.card_max = rel.card_max + 1
        p2 = dict(payload, edit="in-place:relation.card_max")
        good &= contract(acc, source, p2, m, before, False, "FeatureModel", "in-place card_max edit vs pre-edit copy")
        acc.count("history:in-place-card")
    return good


def all_objects(m):
    feats, rels = [], []
    stack = [m.root]
    while stack:
        f = stack.pop()
        feats.append(f)
        for r in f.relations:
            rels.append(r)
            stack.extend(r.children)
    return feats, rels


def run_case(acc, source, spec, r):
    payload = {"source": source, "spec": spec if len(S.feature_names(spec)) <= 40 else None}
    m = S.build(spec)
    good = True
    # --- permuted copies
    for what in (("children",), ("rels",), ("ctcs",), ("children", "rels", "ctcs"), ()):
        ps = permuted(spec, r, what)
        m2 = S.build(ps)
        payload2 = dict(payload, other=ps, edit="permute:" + "+".join(what))
        good &= contract(acc, source, payload2, m, m2, True, "FeatureModel", "permute:" + "+".join(what))
        f1, r1 = all_objects(m)
        f2, r2 = all_objects(m2)
        by = {f.name: f for f in f2}
        for f in f1:
            good &= contract(acc, source, payload2, f, by[f.name], True, "Feature", "same name")
        # relations are matched through the owner name and child-name multiset
        key = lambda rel: (rel.parent.name, tuple(sorted(c.name for c in rel.children)), rel.card_min, rel.card_max)
        idx2 = {}
        for rel in r2:
            idx2.setdefault(key(rel), []).append(rel)
        for rel in r1:
            good &= contract(acc, source, payload2, rel, idx2[key(rel)][0], True, "Relation", "same owner/members/card")
        c2 = {S.digest(S.obs_ast(c.ast.root)): c for c in m2.ctcs}
        for c in m.ctcs:
            good &= contract(acc, source, payload2, c, c2[S.digest(S.obs_ast(c.ast.root))], True, "Constraint", "same ast")
    # constraint: letter case is ignored by design (not required by the property, only tolerated)
    # --- single edits
    for name, es in edits(spec, r):
        if isinstance(es, tuple):
            # a pair of models (both derived from spec) that must be unequal to each other
            ma, mb = S.build(es[0]), S.build(es[1])
            payload2 = dict(payload, spec=es[0], other=es[1], edit=name)
            good &= contract(acc, source, payload2, ma, mb, False, "FeatureModel", name)
            acc.count("edit:" + name)
            continue
        if S.canon_tree(es["root"], ()) == S.canon_tree(spec["root"], ()) and \
                sorted(S.digest(c["ast"]) for c in es["ctcs"]) == sorted(S.digest(c["ast"]) for c in spec["ctcs"]):
            acc.count("edit-was-noop:" + name)
            continue
        if any(rel["min"] < 0 for _, rel in S.relations(es)):
            continue
        m2 = S.build(es)
        payload2 = dict(payload, other=es, edit=name)
        good &= contract(acc, source, payload2, m, m2, False, "FeatureModel", name)
        acc.count("edit:" + name)
    # --- histories: compare/hash first (fills any cache), then edit IN PLACE through the public attributes
    # and setters; the edited object must differ from its pre-edit copy and equal a freshly built model
    good &= inplace_histories(acc, source, spec, r, payload)
    # element-wise: different features / relations / constraints of one model are pairwise unequal
    f1, r1 = all_objects(m)
    for a in f1[:12]:
        for b in f1[:12]:
            if a is not b:
                good &= contract(acc, source, payload, a, b, False, "Feature", "different names")
    for a in r1[:10]:
        for b in r1[:10]:
            if a is not b:
                good &= contract(acc, source, payload, a, b, False, "Relation", "different relations")
    cs = m.ctcs
    for a in range(len(cs)):
        for b in range(len(cs)):
            if a != b and S.digest(spec["ctcs"][a]["ast"]).lower() != S.digest(spec["ctcs"][b]["ast"]).lower():
                same_text = str(cs[a].ast).lower() == str(cs[b].ast).lower()
                if not same_text:
                    good &= contract(acc, source, payload, cs[a], cs[b], False, "Constraint", "different asts")
    # comparisons with foreign objects never raise and are unequal
    for obj in (m, m.root, (r1[0] if r1 else m.root), (cs[0] if cs else m.root)):
        ok, v = guard(acc, source, type(obj).__name__, [], payload, lambda: (obj == 42, obj != 42, obj == None))  # noqa: E711
        if ok and v != (False, True, False):
            acc.fail(source, "foreign-unequal", type(obj).__name__, [], "contract-broken", repr(v), payload)
            good = False
    if good:
        acc.held(source, S.digest(spec) if len(S.feature_names(spec)) > 1 else None)
    if len(acc.samples) < 3 and spec.get("ctcs"):
        acc.sample({"model": spec, "edits": [n for n, _ in edits(spec, rand.rng("s"))]})


def run_shard(desc, acc):
    if desc.get("shard") == 0:
        from ..contracts_run import run_pinned_tests
        run_pinned_tests(acc, ('eq-symmetric-hash',))
    for source, spec, r in cases(desc):
        run_case(acc, source, spec, r)


def replay(payload, acc):
    run_case(acc, payload["source"], payload["spec"], rand.rng("replay"))
    if payload.get("other"):
        m, m2 = S.build(payload["spec"]), S.build(payload["other"])
        contract(acc, "replay", payload, m, m2, payload.get("edit", "").startswith("permute"), "FeatureModel",
                 payload.get("edit", "?"))

"""C13 - configuration estimate: exact without constraints, an upper bound with."""
from .. import spec as S, refsem
from ..acc import guard
from . import semops

LEVEL = "exploration"
RULE = ("models = every tree shape up to isomorphism with n<=N features and every relation cardinality "
        "0<=min<=max<=k (N=6 quick, 7 thorough, n=8 sampled), each also with 1-3 constraints drawn from the "
        "depth<=2 enumeration over the 8 logical operators; seeded random models (<=13 features with "
        "constraints, 15-80 features constraint-free); the shipped FaMa test-suite models. A case is "
        "distinct by the digest of its spec and non-trivial when it has at least one relation.")
ASSUMPTIONS = ["reference configuration sets come from the harness's own 2^n enumerator (cross-validated "
               "against an independent bottom-up generator and a DP counter on every model with <=12 features)",
               "relation cardinalities are concrete (max=-1 is not generated here)"]
ANCHORS = ["fm_estimated_configurations_number.py:count_configurations_rec",
           "fm_estimated_configurations_number.py:FMEstimatedConfigurationsNumber.execute"]
plan = semops.plan


def judge(acc, source, spec, model, idx, sem_t, sem_c, tags, cls, payload, op=None):
    from flamapy.metamodels.fm_metamodel.operations import FMEstimatedConfigurationsNumber
    ok, est = guard(acc, cls, "FMEstimatedConfigurationsNumber", tags, payload,
                    lambda: semops.call_under_default_limit(spec, lambda: (op or FMEstimatedConfigurationsNumber()).execute(model).get_result()))
    if not ok:
        return
    key = S.digest(spec) if S.feature_names(spec)[1:] else None
    exact_tree = len(sem_t) if sem_t is not None else refsem.count(spec)
    if isinstance(est, bool) or not isinstance(est, int):
        acc.fail(cls, "estimate-is-int", "FMEstimatedConfigurationsNumber", tags, "wrong-type", repr(est), payload, key)
        return
    if not spec.get("ctcs"):
        if est != exact_tree:
            acc.fail(cls, "exact-without-constraints", "FMEstimatedConfigurationsNumber", tags,
                     "too-small" if est < exact_tree else "too-large",
                     f"estimate={est} exact={exact_tree}", payload, key)
            return
        acc.count("exact-compared")
    else:
        exact = len(sem_c)
        if est < exact:
            acc.fail(cls, "upper-bound-with-constraints", "FMEstimatedConfigurationsNumber", tags, "too-small",
                     f"estimate={est} exact={exact}", payload, key)
            return
        acc.count("upper-bound-compared")
        if est != exact_tree:
            # the estimate ignores constraints by design; it must still be the tree count
            acc.count("with-ctcs-estimate-differs-from-tree-count")
    if op is not None and source.startswith("history:") and not spec.get("ctcs"):
        # the other public entry point of the same operation object, asked without a new execute()
        try:
            direct = op.get_configurations_number()
            if direct != exact_tree:
                acc.fail(cls, "exact-without-constraints", "FMEstimatedConfigurationsNumber.get_configurations_number", tags,
                         "stale-direct-call", f"get_configurations_number()={direct} exact={exact_tree}", payload, key)
                return
        except Exception as e:  # noqa: BLE001
            acc.fail(cls, "no-exception", "FMEstimatedConfigurationsNumber.get_configurations_number", tags,
                     f"raises:{type(e).__name__}", str(e)[:200], payload, key)
            return
    acc.held(cls, key)


def run_shard(desc, acc):
    from flamapy.metamodels.fm_metamodel.operations import FMEstimatedConfigurationsNumber
    semops.run(desc, acc, judge, "C13", FMEstimatedConfigurationsNumber)


def replay(payload, acc):
    semops.run_case(acc, judge, "C13", payload["source"], payload["spec"])

"""C17 - the metrics report is total, self-consistent and agrees with the operations."""
import collections
import os

from .. import spec as S, refdefs, corpus
from ..acc import guard
from ..gen import shapes, rand, formulas

LEVEL = "exploration"
RULE = ("models: every tree shape with n<=N features and every cardinality (N=5 quick / 6 thorough), random "
        "models (1-120 features) with mixed decompositions (solitary children next to groups, several groups "
        "per parent), abstract features and 0-8 logical constraints of every kind incl. none, the root-only "
        "model, and the shipped corpus (quick <=500 features, thorough <=2000 + ten larger). For each model a "
        "fresh FMMetrics report is judged clause by clause; filters: every singleton + random subsets + empty "
        "list on a pool of models; histories: ordered triples of pool models on ONE FMMetrics object (and a "
        "second object used in between), each report compared with the fresh-object report of the same model. "
        "Distinct by spec digest (+filter/history digest); non-trivial when the model has a relation.")
ASSUMPTIONS = ["share-of table: abstract/concrete/leaf/compound/root/top/solitary/grouped/ECR -> features; "
               "concrete|abstract compound/leaf -> concrete|abstract; mandatory/optional -> solitary; feature "
               "groups -> tree relationships; group kinds -> feature groups; simple/complex -> cross-tree "
               "constraints; requires/excludes -> simple; pseudo/strict -> complex",
               "ratio tolerance 0.005; constraint-kind listings are judged against the Constraint predicates "
               "(whose semantics C18 judges)", "grouped/solitary are decided per relation (member of a relation "
               "with >=2 / exactly 1 children)"]
ANCHORS = ["fm_metrics.py:FMMetrics.calculate_metamodel_metrics", "fm_metrics.py:FMMetrics.solitary_features",
           "fm_metrics.py:FMMetrics.grouped_features", "fm_metrics.py:FMMetrics.mandatory_features",
           "fm_metrics.py:FMMetrics.min_children_per_feature", "fm_metrics.py:FMMetrics.branching_factor",
           "fm_metrics.py:FMMetrics.pseudo_complex_constraints",
           "fm_metrics.py:FMMetrics.extra_constraint_representativeness", "fm_metrics.py:FMMetrics.depth_tree"]
NSHARDS = 16
W = "FMMetrics"
METHODS = {
    "features": "Features", "abstract_features": "Abstract features", "concrete_features": "Concrete features",
    "leaf_features": "Leaf features", "compound_features": "Compound features",
    "concrete_compound_features": "Concrete compound features", "concrete_leaf_features": "Concrete leaf features",
    "abstract_compound_features": "Abstract compound features", "abstract_leaf_features": "Abstract leaf features",
    "tree_relationships": "Tree relationships", "root_feature": "Root feature", "top_features": "Top features",
    "solitary_features": "Solitary features", "grouped_features": "Grouped features",
    "mandatory_features": "Mandatory features", "optional_features": "Optional features",
    "feature_groups": "Feature groups", "alternative_groups": "Alternative groups", "or_groups": "Or groups",
    "mutex_groups": "Mutex groups", "cardinality_groups": "Cardinality groups",
    "branching_factor": "Branching factor", "min_children_per_feature": "Min children per feature",
    "max_children_per_feature": "Max children per feature", "avg_children_per_feature": "Avg children per feature",
    "depth_tree": "Depth of tree", "max_depth_tree": "Max depth of tree", "mean_depth_tree": "Mean depth of tree",
    "median_depth_tree": "Median depth of tree", "cross_tree_constraints": "Cross-tree constraints",
    "simple_constraints": "Simple constraints", "requires_constraints": "Requires constraints",
    "excludes_constraints": "Excludes constraints", "complex_constraints": "Complex constraints",
    "pseudo_complex_constraints": "Pseudo-complex constraints",
    "strict_complex_constraints": "Strict-complex constraints",
    "min_constraints_per_feature": "Min constraints per feature",
    "max_constraints_per_feature": "Max constraints per feature",
    "avg_constraints_per_feature": "Avg constraints per feature",
    "extra_constraint_representativeness": "Features in constraints",
}
CTC_PRED = {"Simple constraints": "is_simple_constraint", "Requires constraints": "is_requires_constraint",
            "Excludes constraints": "is_excludes_constraint", "Complex constraints": "is_complex_constraint",
            "Pseudo-complex constraints": "is_pseudocomplex_constraint",
            "Strict-complex constraints": "is_strictcomplex_constraint"}


def plan(tier, seed):
    return [{"shard": i, "nshards": NSHARDS, "nmax": 5 if tier == "quick" else 6,
             "n_random": 400 if tier == "quick" else 100000, "n_hist": 200 if tier == "quick" else 40000,
             "corpus_max": 500 if tier == "quick" else 2000, "big": 0 if tier == "quick" else 10}
            for i in range(NSHARDS)]


def rand_metrics_model(r, nmax=120):
    n = r.choice([1, r.randint(2, 10), r.randint(2, min(30, nmax)), r.randint(min(30, nmax), nmax)])
    if n == 1:
        spec = {"root": {"name": "Solo", "rels": []}, "ctcs": []}
    else:
        spec = rand.rand_model(r, n, group_kinds=("alternative", "or", "mutex", "cardinality"),
                               solitary_kinds=("mandatory", "optional"), abstract_p=r.choice([0, 0.2, 0.6]),
                               profile=r.choice(["mixed", "deep", "wide"]), multi_rel=True)
    names = S.feature_names(spec)
    ctcs = []
    for k in range(r.choice([0, 0, 1, 2, 4, 8])):
        kind = r.choice(["simple", "simple", "logical", "literal"])
        a, b = r.choice(names), r.choice(names)
        if kind == "simple":
            ast = r.choice(list(formulas.SIMPLE_FORMS.values()))[0](a, b)
        elif kind == "logical":
            ast = rand.rand_formula(r, r.sample(names, min(len(names), 3)), 2)
        else:
            ast = r.choice([a, ["NOT", a]])
        ctcs.append({"name": f"k{k}", "ast": ast})
    if ctcs and r.random() < 0.2:
        # constraints of different kinds under one and the same name
        nm = r.choice(["rule", "", "c"])
        for c in ctcs:
            if r.random() < 0.8:
                c["name"] = nm
    spec["ctcs"] = ctcs
    if r.random() < 0.15 and len(names) >= 3:
        # feature names that happen to parse as numbers are still feature names
        pool = ["2024", "1e3", "Infinity", "NaN", "10", "1_000", "inf", "-5", "0x1F"]
        ren = dict(zip(r.sample(names[1:], min(len(names) - 1, 3)), r.sample(pool, 3)))

        def sub(t):
            if isinstance(t, list):
                return [t[0]] + [sub(x) for x in t[1:]]
            return ren.get(t, t)
        for f in S.features(spec["root"]):
            f["name"] = ren.get(f["name"], f["name"])
        for c in spec["ctcs"]:
            c["ast"] = sub(c["ast"])
        old, new = next(iter(ren.items()))
        spec["ctcs"].append({"name": "num", "ast": ["REQUIRES", new, S.feature_names(spec)[0]]})
    return spec


def tags_of(spec):
    t = set()
    feats = list(S.features(spec["root"]))
    if len(feats) == 1:
        t.add("model:root-only")
    for f in feats:
        ks = [len(r["children"]) for r in f.get("rels", [])]
        if any(k > 1 for k in ks) and any(k == 1 for k in ks):
            t.add("decomposition:mixed")
    return sorted(t)


def norm_report(rep):
    """name -> (normalised result, size, ratio); duplicate names are kept for the once-clause."""
    out = collections.defaultdict(list)
    for e in rep:
        res = e.get("result")
        if isinstance(res, (list, tuple)):
            res = ("L", tuple(sorted(map(str, res))))
        out[e.get("name")].append((res, e.get("size"), e.get("ratio")))
    return dict(out)


def judge_report(rep, spec, model, only=None):
    """Return list of (clause, detail) for one report."""
    probs = []
    ref = refdefs.metrics_reference(spec)
    want_names = set(ref) if only is None else {METHODS[m] for m in only if m in METHODS}
    by = collections.defaultdict(list)
    for e in rep:
        by[e.get("name")].append(e)
    for n, es in by.items():
        if len(es) != 1:
            probs.append(("each-metric-once", f"{n!r} reported {len(es)} times"))
    if set(by) != want_names:
        probs.append(("reported-metrics", f"missing={sorted(want_names - set(by))[:6]} extra={sorted(set(by) - want_names)[:6]}"))
    one = {n: es[0] for n, es in by.items()}
    sizes = {}
    ctcs = model.ctcs
    for n, e in one.items():
        if n not in ref:
            continue
        r = ref[n]
        res, size, ratio = e.get("result"), e.get("size"), e.get("ratio")
        if r["kind"] == "listing":
            if not isinstance(res, (list, tuple)):
                probs.append(("listing-is-list", f"{n}: {type(res).__name__}"))
                continue
            if size != len(res) or isinstance(size, bool):
                probs.append(("size-equals-length", f"{n}: size={size!r} len={len(res)}"))
            sizes[n] = len(res)
            if r["result"] is not None:
                if sorted(map(str, res)) != sorted(map(str, r["result"])):
                    probs.append(("equals-definition", f"{n}: {sorted(map(str, res))[:8]} != {sorted(map(str, r['result']))[:8]}"))
            elif n in CTC_PRED:
                want = [str(c) for c in ctcs if getattr(c, CTC_PRED[n])()]
                if sorted(res) != sorted(want):
                    probs.append(("equals-definition", f"{n}: {len(res)} listed, {len(want)} by predicate"))
            elif "size" in r and len(res) != r["size"]:
                probs.append(("equals-definition", f"{n}: {len(res)} entries, expected {r['size']}"))
        elif r["kind"] == "scalar":
            sizes[n] = 1
            if res != r["result"] or size != 1:
                probs.append(("equals-definition", f"{n}: {res!r}/{size!r} != {r['result']!r}/1"))
        else:
            if isinstance(res, bool) or not isinstance(res, (int, float)):
                probs.append(("value-is-number", f"{n}: {res!r}"))
            elif r["result"] is not None:
                tol = r.get("tol", 0)
                if abs(res - r["result"]) > tol + 1e-9:
                    probs.append(("equals-definition", f"{n}: {res!r} != {r['result']!r}"))
            if size is not None:
                probs.append(("numeric-has-no-size", f"{n}: size={size!r}"))
    # ratios
    for n, e in one.items():
        r = ref.get(n)
        ratio = e.get("ratio")
        if ratio is None or r is None:
            continue
        if isinstance(ratio, bool) or not isinstance(ratio, (int, float)) or not (0 <= ratio <= 1):
            probs.append(("ratio-in-unit-interval", f"{n}: ratio={ratio!r}"))
            continue
        den_name = r.get("share_of")
        if den_name is None:
            probs.append(("ratio-has-denominator", f"{n}: ratio given but no share-of listing defined"))
            continue
        den = ref[den_name].get("size")
        if den is None:   # constraint listings: take the reported denominator listing / the predicate count
            den = len([c for c in ctcs if getattr(c, CTC_PRED[den_name])()]) if den_name in CTC_PRED else None
        num = sizes.get(n)
        if den is None or num is None:
            continue
        exp = (num / den) if den else 0.0
        if abs(ratio - exp) > 0.005 + 1e-9:
            probs.append(("ratio-equals-share", f"{n}: ratio={ratio} but {num}/{den}={exp:.4f} (share of {den_name})"))
    # split identities on the reported listings
    def lst(n):
        e = one.get(n)
        return None if e is None or not isinstance(e.get("result"), (list, tuple)) else list(map(str, e["result"]))

    def split(whole, a, b, clause):
        w, x, y = whole, lst(a), lst(b)
        if w is None or x is None or y is None:
            return
        if sorted(x + y) != sorted(w):
            probs.append((clause, f"{a} ({len(x)}) + {b} ({len(y)}) != whole ({len(w)})"))

    def inside(a, b, clause):
        x, y = lst(a), lst(b)
        if x is None or y is None:
            return
        cy = collections.Counter(y)
        if any(v > cy[k] for k, v in collections.Counter(x).items()):
            probs.append((clause, f"{a} not inside {b}: {sorted(set(x) - set(y))[:6]}"))
    feats = lst("Features")
    split(feats, "Abstract features", "Concrete features", "split:abstract+concrete=features")
    split(feats, "Leaf features", "Compound features", "split:leaf+compound=features")
    if feats is not None:
        nonroot = [n for n in feats if n != spec["root"]["name"]]
        split(nonroot, "Solitary features", "Grouped features", "split:solitary+grouped=non-root")
    inside("Mandatory features", "Solitary features", "inside:mandatory<=solitary")
    inside("Optional features", "Solitary features", "inside:optional<=solitary")
    split(lst("Simple constraints"), "Requires constraints", "Excludes constraints", "split:requires+excludes=simple")
    logical = [str(c) for c in ctcs if c.is_logical_constraint()]
    if only is None or {"simple_constraints", "complex_constraints"} <= set(only):
        split(logical, "Simple constraints", "Complex constraints", "split:simple+complex=logical")
    inside("Pseudo-complex constraints", "Complex constraints", "inside:pseudo<=complex")
    inside("Strict-complex constraints", "Complex constraints", "inside:strict<=complex")
    return probs


def judge_ops(rep, model):
    """Metrics that duplicate a stand-alone operation report that operation's value."""
    from flamapy.metamodels.fm_metamodel.operations import (FMCountLeafs, FMLeafFeatures, FMMaxDepthTree,
                                                            FMAverageBranchingFactor)
    probs = []
    one = {e["name"]: e for e in rep}
    try:
        if "Leaf features" in one:
            lf = sorted(f.name for f in FMLeafFeatures().execute(model).get_result())
            if sorted(one["Leaf features"]["result"]) != lf or one["Leaf features"]["size"] != FMCountLeafs().execute(model).get_result():
                probs.append(("agrees-with-operation", "Leaf features vs FMLeafFeatures/FMCountLeafs"))
        for n in ("Depth of tree", "Max depth of tree"):
            if n in one and one[n]["result"] != FMMaxDepthTree().execute(model).get_result():
                probs.append(("agrees-with-operation", f"{n}={one[n]['result']} vs FMMaxDepthTree"))
        if "Branching factor" in one and one["Branching factor"]["result"] != FMAverageBranchingFactor().execute(model).get_result():
            probs.append(("agrees-with-operation", "Branching factor vs FMAverageBranchingFactor"))
    except Exception as e:  # noqa: BLE001 - operation failures are C16's subject
        probs.append(("agrees-with-operation", f"operation raised {type(e).__name__}: {e}"))
    return probs


def run_model(acc, source, spec, payload, with_filters=False, r=None):
    from flamapy.metamodels.fm_metamodel.operations import FMMetrics
    tags = tags_of(spec)
    cls = source + ("|" + "+".join(tags) if tags else "")
    key = S.digest(spec) if spec["root"].get("rels") else None
    model = S.build(spec)
    before = S.snapshot_or_none(model)
    ok, rep = guard(acc, cls, W, tags, payload, lambda: FMMetrics().execute(model).get_result())
    if not ok:
        return
    probs = judge_report(rep, spec, model) + judge_ops(rep, model)
    if before is not None and before != S.snapshot_or_none(model):
        probs.append(("model-unchanged", "snapshot differs after FMMetrics"))
    if with_filters:
        names = list(METHODS)
        filters = [[m] for m in names] + [[]] + [r.sample(names, r.randint(2, 10)) for _ in range(6)]
        # two presets concatenated: a metric named twice is still reported once
        filters += [["features", "leaf_features", "feature_groups", "features"], [names[0], names[0]],
                    r.sample(names, 5) * 2, ["not_a_metric", "features"]]
        for flt in filters:
            def run(flt=flt):
                op = FMMetrics()
                op.only_these_metrics(list(flt))
                return op.execute(model).get_result()
            ok, frep = guard(acc, cls, W, tags, dict(payload, filter=flt), run, clause="filter:no-exception")
            if not ok:
                continue
            fp = judge_report(frep, spec, model, only=flt)
            full = norm_report(rep)
            for n, v in norm_report(frep).items():
                if n in full and v != full[n]:
                    fp.append(("filter:same-values-as-full-report", f"{n} differs under filter {flt}"))
            for clause, d in fp:
                acc.fail(cls, "filter:" + clause if not clause.startswith("filter:") else clause, W, tags,
                         "report-wrong", d, dict(payload, filter=flt), key)
            acc.count("filter-reports")
    if probs:
        seen = set()
        for clause, d in probs:
            if clause in seen:
                continue
            seen.add(clause)
            acc.fail(cls, clause, W, tags, "report-wrong", d, payload, key)
    else:
        acc.held(cls, key)
    return rep


def history_reparent(acc, spec, payload):
    """The same Feature objects analysed, then re-parented under a new root (add_relation) and analysed again:
    the second report must be the report of the new tree."""
    from flamapy.metamodels.fm_metamodel.models import Feature, Relation, FeatureModel
    from flamapy.metamodels.fm_metamodel.operations import FMMetrics
    model = S.build(spec)
    try:
        FMMetrics().execute(model).get_result()
        newroot = Feature("NewRoot9", [])
        newroot.add_relation(Relation(newroot, [model.root], 1, 1))
        newroot.add_relation(Relation(newroot, [Feature("Sibling9", [])], 0, 1))
        m2 = FeatureModel(newroot, list(model.ctcs))
        rep = FMMetrics().execute(m2).get_result()
    except Exception as e:  # noqa: BLE001
        acc.fail("history:reparented", "no-exception", W, [], f"raises:{type(e).__name__}", str(e)[:200], payload)
        return
    spec2 = {"root": {"name": "NewRoot9", "rels": [{"min": 1, "max": 1, "children": [spec["root"]]},
                                                   {"min": 0, "max": 1, "children": [{"name": "Sibling9", "rels": []}]}]},
             "ctcs": spec.get("ctcs", [])}
    probs = judge_report(rep, spec2, m2) + judge_ops(rep, m2)
    if probs:
        for clause, d in dict(probs).items():
            acc.fail("history:reparented", "history:" + clause, W, [], "report-wrong", d, dict(payload, history="reparented"))
    else:
        acc.held("history:reparented", S.digest(["reparent", spec]))


def run_history(acc, pool, seq, payload):
    """seq: indices into pool; one FMMetrics object analyses them in order (another object is used in
    between); every report must equal the fresh-object report of the same model."""
    from flamapy.metamodels.fm_metamodel.operations import FMMetrics
    models = [S.build(pool[i]) for i in seq]
    fresh = []
    for m in models:
        try:
            fresh.append(norm_report(FMMetrics().execute(m).get_result()))
        except Exception:  # noqa: BLE001 - a model whose fresh report fails is judged by the per-model clauses
            acc.count("history-skipped(fresh-report-raised)")
            return
    op = FMMetrics()
    other = FMMetrics()
    for k, m in enumerate(models):
        ok, rep = guard(acc, "history", W, [], payload, lambda: list(op.execute(m).get_result()))
        if not ok:
            return
        other.execute(models[(k + 1) % len(models)])
        if norm_report(rep) != fresh[k]:
            extra = len(rep) - sum(len(v) for v in fresh[k].values())
            acc.fail("history", "history:report-depends-only-on-current-model", W, [],
                     "accumulates" if extra > 0 else "differs",
                     f"step {k}: {len(rep)} entries vs {sum(len(v) for v in fresh[k].values())} from a fresh object",
                     payload, S.digest(payload))
            return
    acc.held("history", S.digest(payload))
    # the second public entry point, called directly and repeatedly on ONE object (execute() makes a new worker
    # object per execution, this does not)
    direct = FMMetrics()
    for k, m in enumerate(models):
        ok, rep = guard(acc, "history:direct-entry-point", W, [], payload, lambda: list(direct.calculate_metamodel_metrics(m)))
        if not ok:
            return
        if norm_report(rep) != fresh[k]:
            diff = [n for n in fresh[k] if norm_report(rep).get(n) != fresh[k][n]][:3]
            acc.fail("history:direct-entry-point", "history:report-depends-only-on-current-model", W + ".calculate_metamodel_metrics", [],
                     "differs", f"step {k}: metrics {diff} differ from a fresh object's report of the same model",
                     payload, S.digest([payload, "direct"]))
            return
    acc.held("history:direct-entry-point", S.digest([payload, "direct"]))


def cases(desc):
    i, n, seed = desc["shard"], desc["nshards"], desc["seed"]
    idx = 0
    for spec in shapes.all_specs(desc["nmax"], shapes.cards_pos):
        idx += 1
        if idx % n == i:
            yield "shape", spec
    for j in range(desc["n_random"]):
        if j % n == i:
            yield "random", rand_metrics_model(rand.rng(seed, "c17", j))


def run_shard(desc, acc):
    i, n, seed = desc["shard"], desc["nshards"], desc["seed"]
    for k, (source, spec) in enumerate(cases(desc)):
        run_model(acc, source, spec, {"source": source, "spec": spec if len(S.feature_names(spec)) <= 40 else None})
        if k % 4 == 0:
            history_reparent(acc, spec, {"source": "history:reparented", "spec": spec if len(S.feature_names(spec)) <= 40 else None})
        if len(acc.samples) < 2 and source == "random" and spec["ctcs"]:
            acc.sample({"source": source, "spec": spec if len(S.feature_names(spec)) <= 15 else "<large>"})
    # models that are equal for FeatureModel.__eq__ (constraints compared in lower case) but differ in the letter
    # case of a name used in a constraint, analysed one after the other while both are alive, and the same model
    # re-analysed after one constraint was replaced (setter) by its case twin
    from flamapy.core.models.ast import AST
    from flamapy.metamodels.fm_metamodel.operations import FMMetrics as _FM
    for j in range(4):
        rr = rand.rng(seed, "c17twin", i, j)
        base = rand.rand_model(rr, rr.randint(5, 12), group_kinds=("alternative", "or"))
        nm = S.feature_names(base)
        a, b, c, d = nm[1], nm[2], nm[3], nm[4] if len(nm) > 4 else nm[0]
        twin = a.swapcase()
        if twin == a or twin in nm:
            continue
        for f in S.features(base["root"]):
            if f["name"] == b:
                f["name"] = twin
        p1 = dict(base, ctcs=[{"name": "k0", "ast": ["IMPLIES", a, c]}, {"name": "k1", "ast": ["IMPLIES", a, d]}])
        p2 = dict(base, ctcs=[{"name": "k0", "ast": ["IMPLIES", a, c]}, {"name": "k1", "ast": ["IMPLIES", twin, d]}])
        alive = []
        for k, sp in enumerate((p1, p2, p1)):
            m = S.build(sp)
            alive.append(m)
            payload = {"source": "history:case-twin-models", "spec": sp}
            ok, rep = guard(acc, "history:case-twin-models", W, [], payload, lambda: _FM().execute(m).get_result())
            if not ok:
                continue
            probs = judge_report(rep, sp, m)
            if probs:
                for clause, dd in dict(probs).items():
                    acc.fail("history:case-twin-models", "history:" + clause, W, [], "report-wrong", dd, payload)
            else:
                acc.held("history:case-twin-models", S.digest(["twin", sp, k]))
        # same model object, constraint replaced through the setter by its case twin
        m = S.build(p1)
        op = _FM()
        op.execute(m)
        m.ctcs[1].ast = AST(S.build_ast(["IMPLIES", twin, d]))
        payload = {"source": "history:case-twin-setter", "spec": p2}
        ok, rep = guard(acc, "history:case-twin-setter", W, [], payload, lambda: op.execute(m).get_result())
        if ok:
            probs = judge_report(rep, p2, m)
            if probs:
                for clause, dd in dict(probs).items():
                    acc.fail("history:case-twin-setter", "history:" + clause, W, [], "report-wrong", dd, payload)
            else:
                acc.held("history:case-twin-setter", S.digest(["twin-setter", p2]))
    # filters on a pool
    r = rand.rng(seed, "c17f", i)
    for j in range(2):
        spec = rand_metrics_model(rand.rng(seed, "c17fp", i, j), nmax=25)
        run_model(acc, "filter-pool", spec, {"source": "filter-pool", "spec": spec}, with_filters=True, r=r)
    # histories
    pool = [rand_metrics_model(rand.rng(seed, "c17pool", k), nmax=20) for k in range(12)]
    pool = [rand.shared_vocabulary(p, rand.rng(seed, "c17voc", k), size=20) if k % 2 == 0 and len(S.feature_names(p)) > 1 else p
            for k, p in enumerate(pool)]
    for j in range(desc["n_hist"]):
        if j % n == i:
            rr = rand.rng(seed, "c17h", j)
            seq = [rr.randrange(12) for _ in range(3)]
            run_history(acc, pool, seq, {"source": "history", "pool_seed": seed, "seq": seq})
    # corpus
    from flamapy.metamodels.fm_metamodel.operations import FMMetrics
    from flamapy.metamodels.fm_metamodel.transformations import XMLReader
    files = [(p, s) for p, s in corpus.fama_files() if (s or 0) <= desc["corpus_max"]]
    big = [(p, s) for p, s in corpus.fama_files() if (s or 0) > desc["corpus_max"]][:: max(1, 400 // max(1, desc["big"]))][: desc["big"]]
    for j, (p, s) in enumerate(files + big):
        if j % n != i:
            continue
        payload = {"source": "corpus", "path": p}
        ok, model = guard(acc, "corpus", "XMLReader", [], payload,
                          lambda: XMLReader(os.path.join(corpus.MODELS, p)).transform(), clause="harness-read")
        if not ok:
            continue
        spec = S.norm_spec(S.observe(model))
        tags = tags_of(spec)
        cls = "corpus" + ("|" + "+".join(tags) if tags else "")
        ok, rep = guard(acc, cls, W, tags, payload, lambda: FMMetrics().execute(model).get_result())
        if not ok:
            continue
        probs = judge_report(rep, spec, model) + judge_ops(rep, model)
        if probs:
            for clause, d in dict(probs).items():
                acc.fail(cls, clause, W, tags, "report-wrong", d, payload, S.digest(p))
        else:
            acc.held(cls, S.digest(p))


def replay(payload, acc):
    if payload.get("source") == "history":
        pool = [rand_metrics_model(rand.rng(payload["pool_seed"], "c17pool", k), nmax=20) for k in range(12)]
        pool = [rand.shared_vocabulary(p, rand.rng(payload["pool_seed"], "c17voc", k), size=20)
                if k % 2 == 0 and len(S.feature_names(p)) > 1 else p for k, p in enumerate(pool)]
        run_history(acc, pool, payload["seq"], payload)
    elif payload.get("path"):
        acc.inconc("corpus replays run through the quick tier")
    else:
        run_model(acc, payload["source"], payload["spec"], payload, with_filters=bool(payload.get("filter")),
                  r=rand.rng("replay"))

"""C19 - operations depend only on their argument; read-only ones never mutate it."""
import random

from .. import spec as S
from ..acc import guard
from ..gen import rand, shapes
from ..monitors import purity, audit

LEVEL = "exploration"
RULE = ("read-only operations (the ten analyses): for a pool of P seeded models (P=6 quick / 12 thorough per "
        "shard, plus pool models shared by all shards) every sequence of length <=3 over the pool is executed "
        "on ONE operation object, with a second object of the same class and an object of another class used "
        "in between; every execution is a trace event (op, model digest, history, result digest by value) and "
        "the checker requires one result digest per (op, model digest) across all histories and shard "
        "processes; a purity window (deep snapshot + attribute write barrier) and an audit-hook window surround "
        "each execute/get_result. GenerateRandomAttribute: domains = element lists (mixed types), integer "
        "ranges (negative, single point), plain-decimal float ranges, mixtures, several ranges; 20-50 "
        "random.seed values per domain; all features / leaves only; name already present on some features; "
        "missing domain. Distinct by digest of (op, model, history) resp. (model, domain, seed).")
ASSUMPTIONS = ["results are digested by value (feature names; lists as multisets) so that object identity and "
               "listing order do not count as a dependence on history",
               "float range bounds are plain decimals (no exponent notation)"]
ANCHORS = ["fm_generate_random_attribute.py:generate_random_attribute_values",
           "fm_generate_random_attribute.py:get_random_value_from_domain",
           "fm_generate_random_attribute.py:get_random_value_from_ranges",
           "fm_generate_random_attribute.py:GenerateRandomAttribute.execute",
           "fm_metrics.py:FMMetrics.execute", "fm_atomic_sets.py:FMAtomicSets.execute",
           "fm_core_features.py:FMCoreFeatures.execute", "fm_variation_points.py:FMVariationPoints.execute",
           "fm_estimated_configurations_number.py:FMEstimatedConfigurationsNumber.execute",
           "fm_count_leafs.py:FMCountLeafs.execute", "fm_leaf_features.py:FMLeafFeatures.execute",
           "fm_max_depth_tree.py:FMMaxDepthTree.execute",
           "fm_average_branching_factor.py:FMAverageBranchingFactor.execute",
           "fm_feature_ancestors.py:FMFeatureAncestors.execute"]
NSHARDS = 16
OPS = ["FMAtomicSets", "FMAverageBranchingFactor", "FMCoreFeatures", "FMCountLeafs",
       "FMEstimatedConfigurationsNumber", "FMFeatureAncestors", "FMLeafFeatures", "FMMaxDepthTree", "FMMetrics",
       "FMVariationPoints"]


ALT_ENTRY = {
    "FMAtomicSets": [("method", "atomic_sets"), ("func", "fm_atomic_sets", "get_atomic_sets")],
    "FMAverageBranchingFactor": [("method", "get_average_branching_factor"),
                                 ("func", "fm_average_branching_factor", "average_branching_factor")],
    "FMCoreFeatures": [("method", "get_core_features"), ("func", "fm_core_features", "get_core_features")],
    "FMCountLeafs": [("method", "get_number_of_leafs"), ("func", "fm_count_leafs", "count_leaf_features")],
    "FMEstimatedConfigurationsNumber": [("method", "get_configurations_number"),
                                        ("func", "fm_estimated_configurations_number", "count_configurations")],
    "FMLeafFeatures": [("func", "fm_leaf_features", "get_leaf_features")],
    "FMMaxDepthTree": [("func", "fm_max_depth_tree", "max_depth_tree")],
    "FMMetrics": [("method-with-model", "calculate_metamodel_metrics")],
}


def plan(tier, seed):
    return [{"shard": i, "nshards": NSHARDS, "pool": 6 if tier == "quick" else 16,
             "n_gra": 60 if tier == "quick" else 20000, "seeds": 20 if tier == "quick" else 100}
            for i in range(NSHARDS)]


def val(x):
    """Digest-able value of an operation result."""
    if hasattr(x, "name") and hasattr(x, "relations"):
        return "F:" + x.name
    if isinstance(x, (set, frozenset)):
        return ["set"] + sorted((val(y) for y in x), key=str)
    if isinstance(x, (list, tuple)):
        return ["list"] + sorted((val(y) for y in x), key=lambda v: S.digest(v))
    if isinstance(x, dict):
        return ["dict"] + sorted(([val(k), val(v)] for k, v in x.items()), key=lambda v: S.digest(v))
    if x is None or isinstance(x, (bool, int, float, str)):
        return x
    return "obj:" + str(x)


def pool_models(seed, tag, n):
    out = []
    for k in range(n):
        r = rand.rng(seed, "c19pool", tag, k)
        size = r.choice([1, r.randint(2, 8), r.randint(8, 40)])
        if size == 1:
            spec = {"root": {"name": "Solo", "rels": []}, "ctcs": []}
        else:
            spec = rand.rand_model(r, size, n_ctcs=r.randint(0, 3), ctc_depth=2,
                                   group_kinds=("alternative", "or", "mutex", "cardinality"), abstract_p=0.2)
        if size > 1 and k % 3 == 1:
            # constraints made of AND/OR only, nested 3-4 deep (no implication/negation to rewrite)
            names = S.feature_names(spec)
            for q in range(2):
                spec["ctcs"].append({"name": f"deep{q}", "ast": rand.rand_formula(r, r.sample(names, min(4, len(names))), r.randint(3, 4), ("AND", "OR"))
                                     if len(names) > 1 else names[0]})
            spec["ctcs"] = [c for c in spec["ctcs"] if isinstance(c["ast"], list)]
        if size > 1 and (k % 2 == 0 or tag == "shared"):
            spec = rand.shared_vocabulary(spec, r, size=40)   # same names, different positions, across the pool
        out.append(spec)
    return out


def make_op(name, model):
    from flamapy.metamodels.fm_metamodel import operations as O
    return getattr(O, name)()


def prepare(op, name, model):
    if name == "FMFeatureAncestors":
        # the deepest, last feature in pre-order of *this* model
        f = model.root
        while f.relations:
            f = f.relations[-1].children[-1]
        op.set_feature(f)


def execute(acc, name, op, model, payload, trace, hist):
    spec_d = payload["model_digest"]
    prepare(op, name, model)
    before = S.snapshot(model)
    with purity.window(model) as pw, audit.window() as aw:
        ok, res = guard(acc, "readonly:" + name, name, [], payload, lambda: op.execute(model).get_result())
    if not ok:
        return False
    good = True
    after = S.snapshot(model)
    if before != after:
        acc.fail("readonly:" + name, "model-unchanged", name, [], "mutated",
                 f"{S.first_diff(before, after)} writes={pw.writes[:5]}", payload)
        good = False
    elif pw.writes:
        acc.count("mutate-then-restore-observed:" + name)
    if aw.events:
        acc.fail("readonly:" + name, "no-io", name, [], "io:" + aw.events[0][0], f"{aw.events[:4]}", payload)
        good = False
    d = S.digest(val(res))
    trace.append((name, spec_d, hist, d))
    acc.count("executions:" + name)
    # every Feature in the result is an object of the model that was passed to THIS execution
    mine = purity.reachable_ids(model)
    foreign = [x.name for x in feature_objects(res) if id(x) not in mine]
    if foreign:
        acc.fail("readonly:" + name, "result-is-about-the-argument", name, [], "foreign-objects",
                 f"the result contains Feature objects that do not belong to the analysed model: {foreign[:5]}", payload)
        good = False
    # the other public entry points to the same analysis (getter of the operation object, module-level function,
    # FMMetrics.calculate_metamodel_metrics called directly on this - reused - object) agree with execute().get_result()
    import importlib
    for kind, *ref in ALT_ENTRY.get(name, ()):
        try:
            if kind == "method":
                alt = getattr(op, ref[0])()
            elif kind == "method-with-model":
                alt = getattr(op, ref[0])(model)
            else:
                alt = getattr(importlib.import_module("flamapy.metamodels.fm_metamodel.operations." + ref[0]), ref[1])(model)
        except AttributeError:
            acc.count("alternative-entry-point-absent:" + ".".join(ref))
            continue
        except Exception as e:  # noqa: BLE001
            acc.fail("readonly:" + name, "no-exception", name + "." + ref[-1], [], f"raises:{type(e).__name__}", str(e)[:200], payload)
            good = False
            continue
        acc.count("alternative-entry-point-compared:" + ref[-1])
        if S.digest(val(alt)) != d:
            acc.fail("readonly:" + name, "result-depends-only-on-argument", name + "." + ref[-1], [], "entry-points-disagree",
                     f"{ref[-1]} gives another result than execute().get_result() for the same model (history {hist})", payload)
            good = False
    if S.snapshot(model) != after:
        acc.fail("readonly:" + name, "model-unchanged", name, [], "mutated", "by an alternative entry point", payload)
        good = False
    # a result handed out earlier by this operation object is not changed by a later execution
    prev = getattr(op, "_vf_prev", None)
    if prev is not None:
        pobj, pdig = prev
        if S.digest(val(pobj)) != pdig:
            acc.fail("readonly:" + name, "earlier-result-unchanged", name, [], "earlier-result-overwritten",
                     "the object returned by an earlier execution changed during a later execution", payload)
            good = False
    try:
        op._vf_prev = (res, d)
    except Exception:  # noqa: BLE001
        pass
    # the caller may do what it likes with the returned container: the next execution is not affected
    if hist.endswith(",0") or hist.count(",") == 0:
        try:
            if isinstance(res, list):
                saved = list(res)
                res.clear()
            elif isinstance(res, dict):
                saved = dict(res)
                res.clear()
            else:
                saved = None
            if saved is not None:
                again = op.execute(model).get_result()
                d2 = S.digest(val(again))
                if isinstance(res, list):
                    res.extend(saved) if again is not res else None
                elif isinstance(res, dict):
                    res.update(saved) if again is not res else None
                if d2 != d:
                    acc.fail("readonly:" + name, "result-depends-only-on-argument", name, [], "caller-mutation-leaks",
                             "after the caller emptied the returned container, the next execution on the same model "
                             "returned a different result", payload)
                    good = False
                op._vf_prev = (again, d2)
        except Exception as e:  # noqa: BLE001
            acc.fail("readonly:" + name, "no-exception", name, [], f"raises:{type(e).__name__}", str(e)[:200], payload)
            good = False
    return good


def feature_objects(x, out=None, depth=0):
    out = [] if out is None else out
    if depth > 4:
        return out
    if hasattr(x, "relations") and hasattr(x, "name"):
        out.append(x)
    elif isinstance(x, dict):
        for k, v in x.items():
            feature_objects(k, out, depth + 1)
            feature_objects(v, out, depth + 1)
    elif isinstance(x, (list, tuple, set, frozenset)):
        for y in x:
            feature_objects(y, out, depth + 1)
    return out


def check_trace(acc, trace, payload_of):
    """function-of-the-argument: same (op, model) => same result digest."""
    seen = {}
    for name, md, hist, d in trace:
        k = (name, md)
        if k in seen and seen[k][0] != d:
            acc.fail("readonly:" + name, "result-depends-only-on-argument", name, [], "history-dependent",
                     f"model {md}: result {d} in history {hist} but {seen[k][0]} in history {seen[k][1]}",
                     payload_of(md, hist))
        else:
            seen.setdefault(k, (d, hist))
    return seen


def run_histories(acc, desc):
    seed, i = desc["seed"], desc["shard"]
    pool = pool_models(seed, "shared", 3) + pool_models(seed, f"s{i}", desc["pool"] - 3)
    digests = [S.digest(p) for p in pool]
    trace = []
    seqs = [(a,) for a in range(len(pool))] + [(a, b) for a in range(len(pool)) for b in range(len(pool))]
    r = rand.rng(seed, "c19seq", i)
    triples = [(a, b, c) for a in range(len(pool)) for b in range(len(pool)) for c in range(len(pool))]
    r.shuffle(triples)
    seqs += triples[: 216 if desc["pool"] <= 6 else 500]
    # two models that are == (same names, relations, constraints) but differ in what equality ignores:
    # abstract flags, attributes, order of children
    import copy
    twin = copy.deepcopy(pool[1])
    for f in S.features(twin["root"]):
        f["abstract"] = not f.get("abstract", False)
        f["attrs"] = [{"name": "twin", "value": 1}]
        for rel in f.get("rels", []):
            rel["children"].reverse()
    pool.append(twin)
    digests.append(S.digest(twin))
    seqs += [(1, len(pool) - 1), (len(pool) - 1, 1), (1, len(pool) - 1, 1)]
    # every shard process meets the models in a different order, so that state kept for the lifetime of the
    # process (class attributes, module-level caches) differs between the processes when a shared model is
    # analysed; the cross-process comparison in finalize() and the fresh-process baseline then see it
    r.shuffle(seqs)
    for oi, name in enumerate(OPS):
        other_name = OPS[(oi + 3) % len(OPS)]
        for seq in seqs:
            models = [S.build(pool[k]) for k in seq]
            op = make_op(name, None)
            twin = make_op(name, None)
            other = make_op(other_name, None)
            good = True
            for step, (k, m) in enumerate(zip(seq, models)):
                payload = {"kind": "history", "op": name, "seq": list(seq), "pool_tag": f"s{i}",
                           "pool": desc["pool"], "model_digest": digests[k], "seed": seed}
                good &= execute(acc, name, op, m, payload, trace, "seq=" + ",".join(map(str, seq[: step + 1])))
                # interleave: another object of the same class and one of another class see a different model
                m2 = models[(step + 1) % len(models)]
                try:
                    prepare(twin, name, m2)
                    twin.execute(m2)
                    prepare(other, other_name, m2)
                    other.execute(m2)
                except Exception:  # noqa: BLE001 - failures of the interleaved calls are judged elsewhere
                    acc.count("interleaved-call-raised")
            if good:
                acc.held("readonly:" + name, S.digest([name, [digests[k] for k in seq]]))
    seen = check_trace(acc, trace, lambda md, hist: {"kind": "history-trace", "model_digest": md, "hist": hist})
    acc.count("trace-events", len(trace))
    # export the shared-pool results for the cross-process comparison in finalize()
    acc.extra["shared"] = {f"{n}|{md}": d for (n, md), (d, _) in seen.items() if md in digests[:3]}
    if i == 0:
        acc.extra["fresh"] = fresh_baselines(acc, pool[:3], digests[:3])
    if len(acc.samples) < 2:
        acc.sample({"history": list(seqs[-1]), "ops": OPS, "trace_event": list(trace[-1])})


def fresh_baselines(acc, specs, digests):
    """History-free reference: each shared pool model is analysed by every operation in a brand-new
    interpreter process that has executed nothing else."""
    import json
    import os
    import subprocess
    import tempfile
    from .. import env
    out = {}
    for spec, md in zip(specs, digests):
        fd, path = tempfile.mkstemp(prefix="vf-c19-", suffix=".json")
        os.close(fd)
        try:
            with open(path, "w", encoding="utf-8") as fh:
                json.dump(spec, fh)
            p = subprocess.run([env.PYTHON, "-m", "vf.checks.c19", path], cwd=env.VERIF, env=env.child_env(),
                               timeout=600, stdout=subprocess.PIPE, stderr=subprocess.PIPE)
            if p.returncode != 0:
                acc.inconc("fresh-process baseline failed: " + p.stderr.decode(errors="replace")[-300:])
                continue
            for name, d in json.loads(p.stdout.decode()).items():
                out[f"{name}|{md}"] = d
            acc.count("fresh-process-baselines")
        finally:
            os.remove(path)
    return out


def _fresh_main(path):
    import json
    from vf import env
    env.bootstrap()
    with open(path, encoding="utf-8") as fh:
        spec = json.load(fh)
    res = {}
    for name in OPS:
        model = S.build(spec)
        op = make_op(name, model)
        prepare(op, name, model)
        res[name] = S.digest(val(op.execute(model).get_result()))
    print(json.dumps(res))


# ----------------------------------------------------------------------------- GenerateRandomAttribute
def rand_domain(r):
    kind = r.choice(["elements", "int-range", "float-range", "mixture", "several-ranges", "single-point",
                     "negative"])
    if kind == "elements":
        return kind, [], r.choice([[1, 2, 3], ["a", "b"], [True, "x", 3, 2.5], ["only"], [0], [None, 1],
                                   [[1, 2], [3]], [{"k": 1}, {"k": 2}], [[1, 2], "x", 3], [1, 1, 2], ["a", "a"], [1, True, 1.0]])
    if kind == "int-range":
        a = r.randint(-50, 50)
        return kind, [[a, a + r.randint(0, 100)]], []
    if kind == "float-range":
        a = round(r.uniform(-10, 10), r.randint(1, 3))
        b = round(a + r.uniform(0.001, 20), r.randint(1, 3))
        return kind, [[a, max(a, b)]], []
    if kind == "mixture":
        return kind, [[r.randint(0, 5), r.randint(5, 9)]], r.choice([["lo", "hi"], [100, 200], [[7, 8]], ["x", "x"]])
    if kind == "several-ranges":
        return kind, [[0, 3], [10, 13], [100.5, 101.25]], []
    if kind == "single-point":
        return kind, [[7, 7]], []
    return kind, [[-20, -10], [-0.5, -0.25]], []


def value_in_domain(v, ranges, elements):
    for e in elements:
        if v is e or (type(v) is type(e) and v == e):
            return True
    for a, b in ranges:
        if isinstance(v, bool) or not isinstance(v, (int, float)):
            continue
        if isinstance(a, int) and isinstance(b, int):
            if isinstance(v, int) and a <= v <= b:
                return True
        elif a <= v <= b:
            return True
    return False


def run_gra_case(acc, spec, dkind, ranges, elements, only_leaf, rseed, preset, payload):
    from flamapy.core.exceptions import FlamaException
    from flamapy.metamodels.fm_metamodel.models import Domain, Range, Attribute
    from flamapy.metamodels.fm_metamodel.operations import GenerateRandomAttribute
    name = "cost"
    W = "GenerateRandomAttribute"
    cls = "gra:" + dkind
    model = S.build(spec)
    # some features already carry the attribute
    feats = []
    stack = [model.root]
    while stack:
        f = stack.pop()
        feats.append(f)
        for rel in f.relations:
            stack.extend(rel.children)
    for f in feats:
        if f.name in preset:
            f.add_attribute(Attribute(name, None, "preset"))
    dom = Domain([Range(a, b) for a, b in ranges], list(elements))
    op = GenerateRandomAttribute()
    op.set_name(name)
    op.set_domain(dom)
    op.set_only_leaf_features(only_leaf)
    before_obs = S.observe(model)
    before_snap = S.snapshot(model)
    dom_snap = ([(r.min_value, r.max_value) for r in dom.range_list], list(dom.element_list))
    random.seed(rseed)
    with audit.window() as aw:
        ok, res = guard(acc, cls, W, [], payload, lambda: op.execute(model).get_result())
    if not ok:
        return
    probs = []
    if res is not model:
        probs.append(("returns-the-model", "get_result() is not the model passed in"))
    if aw.events:
        probs.append(("no-io", str(aw.events[:3])))
    if ([(r.min_value, r.max_value) for r in dom.range_list], list(dom.element_list)) != dom_snap:
        probs.append(("domain-unchanged", "the domain object was modified"))
    targeted = 0
    for f in feats:
        is_target = (not only_leaf) or (len(f.relations) == 0)
        had = f.name in preset
        attrs = [a for a in f.attributes if a.name == name]
        if is_target and not had:
            targeted += 1
            if len(attrs) != 1:
                probs.append(("exactly-one-attribute", f"{f.name}: {len(attrs)} attributes named {name}"))
                continue
            a = attrs[0]
            if a.parent is not f:
                probs.append(("attribute-points-to-feature", f"{f.name}"))
            if a.domain is not dom and not (a.domain is not None and
                                            [(r.min_value, r.max_value) for r in a.domain.range_list] == dom_snap[0]
                                            and list(a.domain.element_list) == dom_snap[1]):
                probs.append(("attribute-domain", f"{f.name}: domain differs from the given one"))
            if not value_in_domain(a.default_value, ranges, elements):
                probs.append(("value-in-domain", f"{f.name}: {a.default_value!r} not in ranges={ranges} elements={elements}"))
            # strip for the comparison below
            f.attributes.remove(a)
        else:
            if had and (len(attrs) != 1 or attrs[0].default_value != "preset"):
                probs.append(("existing-attribute-untouched", f"{f.name}: {[(x.name, x.default_value) for x in attrs]}"))
            if not had and attrs:
                probs.append(("non-targeted-untouched", f"{f.name} got the attribute"))
    if S.observe(model) != before_obs:
        probs.append(("everything-else-untouched", "model differs beyond the expected additions"))
    else:
        after = S.snapshot(model)
        if after != before_snap:
            probs.append(("everything-else-untouched", "identity/structure snapshot differs: " + str(S.first_diff(before_snap, after))))
    acc.count("gra-targeted-features", targeted)
    key = S.digest([spec, ranges, elements, only_leaf, rseed, sorted(preset)])
    if probs:
        for clause, d in dict(probs).items():
            acc.fail(cls, clause, W, [], "wrong-attribute-generation", d, payload, key)
    else:
        acc.held(cls, key)


def run_gra_missing_domain(acc, spec):
    from flamapy.core.exceptions import FlamaException
    from flamapy.metamodels.fm_metamodel.operations import GenerateRandomAttribute
    W = "GenerateRandomAttribute"
    for how in ("never-set", "set-to-None"):
        model = S.build(spec)
        op = GenerateRandomAttribute()
        op.set_name("cost")
        if how == "set-to-None":
            op.set_domain(None)
        payload = {"kind": "gra-missing-domain", "how": how, "spec": spec}
        before = S.snapshot(model)
        try:
            op.execute(model)
            acc.fail("gra:missing-domain", "missing-domain-is-library-error", W, ["domain:" + how], "no-error",
                     "execute() returned without error", payload)
        except FlamaException:
            if S.snapshot(model) != before:
                acc.fail("gra:missing-domain", "missing-domain-is-library-error", W, ["domain:" + how],
                         "mutated-before-error", "model changed", payload)
            else:
                acc.held("gra:missing-domain", S.digest([how, spec]))
        except Exception as e:  # noqa: BLE001
            acc.fail("gra:missing-domain", "missing-domain-is-library-error", W, ["domain:" + how],
                     f"raises:{type(e).__name__}", f"{type(e).__name__}: {e}", payload)


def run_gra_missing_domain_all_have(acc, spec):
    """A missing domain is an error of the call, whatever the model looks like: also when every targeted feature
    already carries the attribute (nothing would have to be drawn)."""
    from flamapy.core.exceptions import FlamaException
    from flamapy.metamodels.fm_metamodel.models import Domain, Range
    from flamapy.metamodels.fm_metamodel.operations import GenerateRandomAttribute
    W = "GenerateRandomAttribute"
    for only_leaf in (False, True):
        model = S.build(spec)
        first = GenerateRandomAttribute()
        first.set_name("cost")
        first.set_domain(Domain([Range(0, 9)], None))
        first.set_only_leaf_features(only_leaf)
        try:
            first.execute(model)
        except Exception:  # noqa: BLE001 - judged by run_gra_case
            continue
        op = GenerateRandomAttribute()
        op.set_name("cost")
        op.set_only_leaf_features(only_leaf)
        payload = {"kind": "gra-missing-domain", "how": "all-targets-have-it", "spec": spec}
        before = S.snapshot(model)
        try:
            op.execute(model)
            acc.fail("gra:missing-domain", "missing-domain-is-library-error", W, ["domain:never-set+all-targets-have-the-attribute"],
                     "no-error", "execute() without a domain returned without error (every targeted feature already had the attribute)", payload)
        except FlamaException:
            if S.snapshot(model) != before:
                acc.fail("gra:missing-domain", "missing-domain-is-library-error", W, ["domain:never-set+all-targets-have-the-attribute"],
                         "mutated-before-error", "model changed", payload)
            else:
                acc.held("gra:missing-domain", S.digest(["all-have", only_leaf, spec]))
        except Exception as e:  # noqa: BLE001
            acc.fail("gra:missing-domain", "missing-domain-is-library-error", W, ["domain:never-set+all-targets-have-the-attribute"],
                     f"raises:{type(e).__name__}", f"{type(e).__name__}: {e}", payload)


def run_gra_after_failure(acc, spec_x, spec_y, rseed):
    """History: an execution on model X is rejected (missing domain); the domain is then set and the SAME
    operation object is executed on a different model Y.  X must stay untouched and Y must get exactly what a
    fresh operation object produces for the same random seed."""
    from flamapy.core.exceptions import FlamaException
    from flamapy.metamodels.fm_metamodel.models import Domain, Range
    from flamapy.metamodels.fm_metamodel.operations import GenerateRandomAttribute
    W = "GenerateRandomAttribute"
    payload = {"kind": "gra-after-failure", "x": spec_x, "y": spec_y, "rseed": rseed}
    mx, my, my2 = S.build(spec_x), S.build(spec_y), S.build(spec_y)
    snap_x = S.snapshot(mx)
    op = GenerateRandomAttribute()
    op.set_name("cost")
    try:
        op.execute(mx)
        acc.count("gra-after-failure:first-call-did-not-fail")
    except FlamaException:
        pass
    except Exception:  # noqa: BLE001 - judged by the missing-domain clause
        return
    dom = Domain([Range(0, 50)], ["lo", "hi"])
    op.set_domain(dom)
    try:
        random.seed(rseed)
        op.execute(my)
        fresh = GenerateRandomAttribute()
        fresh.set_name("cost")
        fresh.set_domain(dom)
        random.seed(rseed)
        fresh.execute(my2)
    except Exception as e:  # noqa: BLE001
        acc.fail("gra:after-failure", "no-exception", W, [], f"raises:{type(e).__name__}", str(e)[:200], payload)
        return
    if S.snapshot(mx) != snap_x:
        acc.fail("gra:after-failure", "only-the-current-argument-is-touched", W, [], "earlier-model-mutated",
                 "the model of the earlier, rejected execution was modified by the later execution", payload)
    elif S.observe(my) != S.observe(my2):
        acc.fail("gra:after-failure", "result-depends-only-on-argument", W, [], "history-dependent",
                 "values differ from those a fresh operation object draws for the same seed", payload)
    else:
        acc.held("gra:after-failure", S.digest(["gra-after", spec_x, spec_y, rseed]))


def run_gra(acc, desc):
    seed, i, n = desc["seed"], desc["shard"], desc["nshards"]
    for j in range(desc["n_gra"]):
        if j % n != i:
            continue
        r = rand.rng(seed, "c19gra", j)
        size = r.choice([1, r.randint(2, 10), r.randint(10, 60)])
        spec = ({"root": {"name": "Solo", "rels": []}, "ctcs": []} if size == 1 else
                rand.rand_model(r, size, group_kinds=("alternative", "or", "mutex", "cardinality")))
        names = S.feature_names(spec)
        dkind, ranges, elements = rand_domain(r)
        preset = set(r.sample(names, r.randint(0, max(0, len(names) // 3))))
        only_leaf = r.random() < 0.5
        for s in range(desc["seeds"]):
            payload = {"kind": "gra", "spec": spec if len(names) <= 30 else None, "dkind": dkind, "ranges": ranges,
                       "elements": elements, "only_leaf": only_leaf, "rseed": s, "preset": sorted(preset), "j": j}
            run_gra_case(acc, spec, dkind, ranges, elements, only_leaf, s, preset, payload)
        if j < 3 * n:
            run_gra_missing_domain(acc, spec)
            run_gra_missing_domain_all_have(acc, spec)
            other = rand.rand_model(rand.rng(seed, "c19gra-other", j), r.randint(2, 12),
                                    group_kinds=("alternative", "or"))
            run_gra_after_failure(acc, spec, other, j)
        if len(acc.samples) < 3:
            acc.sample({"gra": {"features": len(names), "domain": [dkind, ranges, elements],
                                "only_leaf": only_leaf, "preset": sorted(preset)[:5]}})


def run_shard(desc, acc):
    run_histories(acc, desc)
    run_gra(acc, desc)


def finalize(acc, tier, seed):
    """Cross-process part of the trace checker: the shared pool models were analysed in every shard
    process; their result digests must agree."""
    seen = {}
    n = 0
    for sh in acc.extra.get("shards", []):
        for k, d in sh.get("shared", {}).items():
            n += 1
            if k in seen and seen[k] != d:
                acc.fail("readonly:" + k.split("|")[0], "result-depends-only-on-argument", k.split("|")[0], [],
                         "process-dependent", f"{k}: {d} vs {seen[k]} in another shard process",
                         {"kind": "cross-process", "key": k})
            seen.setdefault(k, d)
    acc.counters["cross-process-comparisons"] = n
    nb = 0
    for sh in acc.extra.get("shards", []):
        for k, d in sh.get("fresh", {}).items():
            nb += 1
            if k in seen and seen[k] != d:
                acc.fail("readonly:" + k.split("|")[0], "result-depends-only-on-argument", k.split("|")[0], [],
                         "differs-from-fresh-process", f"{k}: {seen[k]} after earlier executions vs {d} in a fresh process",
                         {"kind": "cross-process", "key": k})
    acc.counters["fresh-process-baseline-comparisons"] = nb


def replay(payload, acc):
    if payload.get("kind") == "gra" and payload.get("spec"):
        run_gra_case(acc, payload["spec"], payload["dkind"], payload["ranges"], payload["elements"],
                     payload["only_leaf"], payload["rseed"], set(payload["preset"]), payload)
    elif payload.get("kind") == "gra-after-failure":
        run_gra_after_failure(acc, payload["x"], payload["y"], payload["rseed"])
    elif payload.get("kind") == "gra-missing-domain":
        run_gra_missing_domain(acc, payload["spec"])
    elif payload.get("kind") == "history":
        desc = {"seed": payload["seed"], "shard": int(payload["pool_tag"][1:]), "pool": payload["pool"]}
        run_histories(acc, desc)
    else:
        acc.inconc("this witness is replayed by re-running the tier with the same seed")


if __name__ == "__main__":
    import sys
    _fresh_main(sys.argv[1])

"""C16 - tree-shape operations match their definitions on every model."""
import os

from .. import spec as S, refdefs, corpus
from ..acc import guard
from ..gen import shapes, rand

LEVEL = "exploration"
RULE = ("models: every tree shape with n<=N features and every relation cardinality (N=6 quick / 7 thorough), "
        "degenerate profiles (root only, chain of depth 250, one group of 2000 children, 2000 solitary "
        "children), seeded random trees up to 2000 features, and the shipped FaMa/Betty corpus read by "
        "XMLReader (quick: <=2000 features, thorough: all 1299 files); the ancestors operation is executed for "
        "every feature of every model (capped at 3000 features per model for the very large ones, spread "
        "evenly). Distinct by spec digest; non-trivial when the model has at least one relation.")
ASSUMPTIONS = ["reference values are computed on the harness's observation of the model (public attributes "
               "only)", "'rounded to two decimals' is accepted with either tie direction (|x-exact|<=0.005 and "
               "x has at most two decimals)"]
ANCHORS = ["fm_count_leafs.py:count_leaf_features", "fm_leaf_features.py:get_leaf_features",
           "fm_max_depth_tree.py:max_depth_tree", "fm_average_branching_factor.py:average_branching_factor",
           "fm_feature_ancestors.py:get_feature_ancestors", "fm_variation_points.py:variation_points",
           "fm_feature_ancestors.py:FMFeatureAncestors.execute"]
NSHARDS = 16


def plan(tier, seed):
    return [{"shard": i, "nshards": NSHARDS, "nmax": 6 if tier == "quick" else 7,
             "n_random": 160 if tier == "quick" else 60000,
             "corpus_max": 2000 if tier == "quick" else 10 ** 9} for i in range(NSHARDS)]


def degenerate():
    yield "root-only", {"root": {"name": "Solo", "rels": []}, "ctcs": []}
    chain = {"name": "C0", "rels": []}
    cur = chain
    for i in range(1, 250):
        nxt = {"name": f"C{i}", "rels": []}
        cur["rels"].append({"min": i % 2, "max": 1, "children": [nxt]})
        cur = nxt
    yield "chain-250", {"root": chain, "ctcs": []}
    yield "one-group-2000", {"root": {"name": "G", "rels": [
        {"min": 1, "max": 2000, "children": [{"name": f"g{i}", "rels": []} for i in range(2000)]}]}, "ctcs": []}
    yield "solitary-2000", {"root": {"name": "W", "rels": [
        {"min": i % 2, "max": 1, "children": [{"name": f"w{i}", "rels": []}]} for i in range(2000)]}, "ctcs": []}
    yield "two-features-mandatory", {"root": {"name": "P", "rels": [
        {"min": 1, "max": 1, "children": [{"name": "Q", "rels": []}]}]}, "ctcs": []}


def cases(desc):
    i, n, seed = desc["shard"], desc["nshards"], desc["seed"]
    idx = 0
    for spec in shapes.all_specs(desc["nmax"]):
        idx += 1
        if idx % n == i:
            yield "shape", spec, None
    if i == 1:
        for name, spec in degenerate():
            yield "degenerate:" + name, spec, None
    for j in range(desc["n_random"]):
        if j % n != i:
            continue
        r = rand.rng(seed, "c16", j)
        size = r.choice([r.randint(2, 40), r.randint(40, 400), r.randint(400, 2000)])
        spec = rand.rand_model(r, size, group_kinds=("alternative", "or", "mutex", "cardinality", "dead"),
                               solitary_kinds=("mandatory", "optional", "dead"),
                               profile=r.choice(["mixed", "deep", "wide"]))
        if j % 2 == 0:
            # feature cardinalities (clonable features) are not relation cardinalities: no tree operation looks at them
            fs = list(S.features(spec["root"]))
            for f in r.sample(fs, max(1, len(fs) // 4)):
                f["fcard"] = r.choice([[0, 3], [0, 1], [2, 5], [0, -1], [1, -1], [3, 3]])
        yield "random", spec, None
    files = [(p, s) for p, s in corpus.fama_files() if (s or 0) <= desc["corpus_max"]]
    for j, (p, s) in enumerate(files):
        if j % n == i:
            yield "corpus", None, p


def judge(acc, source, spec, model, cls, payload):
    from flamapy.metamodels.fm_metamodel.operations import (FMCountLeafs, FMLeafFeatures, FMMaxDepthTree,
                                                            FMAverageBranchingFactor, FMFeatureAncestors,
                                                            FMVariationPoints)
    key = S.digest(spec) if spec["root"].get("rels") else None
    tags = ["model:root-only"] if not spec["root"].get("rels") else []
    bad = False
    before = S.snapshot_or_none(model) if len(S.feature_names(spec)) <= 3000 else None
    acc.count('purity-window' if before is not None else 'purity-window-skipped(size/depth)')

    def chk(where, fn, oracle):
        nonlocal bad
        ok, res = guard(acc, cls, where, tags, payload, fn)
        if not ok:
            bad = True
            return
        msg = oracle(res)
        if msg:
            bad = True
            acc.fail(cls, "matches-definition", where, tags, "wrong-value", msg, payload, key)
        else:
            acc.count("compared:" + where)

    ref_leaves = refdefs.leaves(spec)
    chk("FMCountLeafs", lambda: FMCountLeafs().execute(model).get_result(),
        lambda r: None if (r == len(ref_leaves) and not isinstance(r, bool)) else f"{r!r} != {len(ref_leaves)}")
    chk("FMLeafFeatures", lambda: FMLeafFeatures().execute(model).get_result(),
        lambda r: None if sorted(f.name for f in r) == sorted(ref_leaves) else
        f"{sorted(f.name for f in r)[:20]} != {sorted(ref_leaves)[:20]}")
    d = refdefs.depth(spec)
    chk("FMMaxDepthTree", lambda: FMMaxDepthTree().execute(model).get_result(),
        lambda r: None if r == d else f"{r!r} != {d}")
    nch, nb = refdefs.branching(spec)

    def o_branch(r):
        if isinstance(r, bool) or not isinstance(r, (int, float)):
            return f"not a number: {r!r}"
        if nb == 0:
            return None
        exact = nch / nb
        if abs(r - exact) > 0.005 + 1e-9 or abs(round(r, 2) - r) > 1e-9:
            return f"{r!r} vs exact {exact!r}"
        return None
    chk("FMAverageBranchingFactor", lambda: FMAverageBranchingFactor().execute(model).get_result(), o_branch)
    vp = refdefs.variation_points(spec)

    def o_vp(r):
        got = {getattr(k, "name", k): sorted(getattr(v, "name", v) for v in vs) for k, vs in r.items()}
        return None if got == vp else f"{dict(list(got.items())[:5])} != {dict(list(vp.items())[:5])}"
    chk("FMVariationPoints", lambda: FMVariationPoints().execute(model).get_result(), o_vp)
    # ancestors of every feature (identity of the model's own Feature objects is used as argument)
    anc = refdefs.ancestors(spec)
    feats = []
    stack = [model.root]
    while stack:
        f = stack.pop()
        feats.append(f)
        for r in f.relations:
            stack.extend(r.children)
    step = max(1, len(feats) // 3000)
    own = {id(x) for x in feats}
    for f in feats[::step]:
        def run(f=f):
            op = FMFeatureAncestors()
            op.set_feature(f)
            return op.execute(model).get_result()
        ok, res = guard(acc, cls, "FMFeatureAncestors", tags, payload, run)
        if not ok:
            bad = True
            break
        got = [x.name for x in res]
        if got == anc[f.name] and any(id(x) not in own for x in res):
            # the right names, but objects that are not features of this tree (a stale parent pointer to a
            # replaced object of the same name)
            bad = True
            acc.fail(cls, "matches-definition", "FMFeatureAncestors", tags, "foreign-objects",
                     f"ancestors({f.name}) contains objects that are not in the tree: "
                     f"{[x.name for x in res if id(x) not in own][:5]}", payload, key)
            break
        if got != anc[f.name]:
            bad = True
            acc.fail(cls, "matches-definition", "FMFeatureAncestors", tags, "wrong-value",
                     f"ancestors({f.name}) = {got[:12]} != {anc[f.name][:12]}", payload, key)
            break
        acc.count("compared:FMFeatureAncestors")
    if before is not None and before != S.snapshot_or_none(model):
        bad = True
        acc.fail(cls, "model-unchanged", "tree-operations", [], "mutated", "snapshot differs", payload, key)
    if not bad:
        acc.held(cls, key)


def history_reparent(acc, source, spec, model, payload):
    """History on the SAME Feature objects: after the analyses above, the old root is attached under a new
    root through add_relation, a new FeatureModel is built on it and everything is analysed again."""
    from flamapy.metamodels.fm_metamodel.models import Feature, Relation, FeatureModel
    newroot = Feature("NewRoot9", [])
    sib = Feature("Sibling9", [])
    newroot.add_relation(Relation(newroot, [model.root], 1, 1))
    newroot.add_relation(Relation(newroot, [sib], 0, 1))
    m2 = FeatureModel(newroot, list(model.ctcs))
    spec2 = {"root": {"name": "NewRoot9", "rels": [{"min": 1, "max": 1, "children": [spec["root"]]},
                                                   {"min": 0, "max": 1, "children": [{"name": "Sibling9", "rels": []}]}]},
             "ctcs": spec.get("ctcs", [])}
    judge(acc, "history:reparented", spec2, m2, "history:reparented", dict(payload, history="reparented under a new root"))


def history_move_ancestor(acc, spec, payload):
    """One FMFeatureAncestors object: ancestors of a deep feature X, then the subtree rooted at X's parent (or a
    higher ancestor) is moved to another place in the tree, then X is asked again as the very next query."""
    from flamapy.metamodels.fm_metamodel.models import Relation
    from flamapy.metamodels.fm_metamodel.operations import FMFeatureAncestors
    import copy
    r = rand.rng("c16-move", S.digest(spec))
    model = S.build(spec)
    feats, par = [], {}
    stack = [model.root]
    while stack:
        f = stack.pop()
        feats.append(f)
        for rel in f.relations:
            for c in rel.children:
                par[id(c)] = f
                stack.append(c)

    def chain(f):
        out = []
        p = par.get(id(f))
        while p is not None:
            out.append(p)
            p = par.get(id(p))
        return out
    deep = [f for f in feats if len(chain(f)) >= 2]
    if not deep:
        return
    x = r.choice(deep)
    anc = chain(x)
    mover = r.choice(anc[:-1])            # X's parent or a higher ancestor (not the root)
    sub = set()
    st = [mover]
    while st:
        f = st.pop()
        sub.add(id(f))
        for rel in f.relations:
            st.extend(rel.children)
    dests = [f for f in feats if id(f) not in sub and f is not par[id(mover)]]
    if not dests:
        return
    dest = r.choice(dests)
    op = FMFeatureAncestors()
    op.set_feature(x)
    try:
        op.execute(model).get_result()
        old_parent = par[id(mover)]
        for rel in list(old_parent.relations):
            if any(c is mover for c in rel.children):
                rel.children.remove(mover)
                if not rel.children:
                    old_parent.relations.remove(rel)
        dest.add_relation(Relation(dest, [mover], 0, 1))
        par[id(mover)] = dest
        got = [f.name for f in op.execute(model).get_result()]
    except Exception as e:  # noqa: BLE001
        acc.fail("history:ancestor-moved", "no-exception", "FMFeatureAncestors", [], f"raises:{type(e).__name__}", str(e)[:200], payload)
        return
    want = [f.name for f in chain(x)]
    if got != want:
        acc.fail("history:ancestor-moved", "matches-definition", "FMFeatureAncestors", [], "stale-chain",
                 f"ancestors({x.name}) after moving {mover.name} under {dest.name}: {got[:8]} != {want[:8]}",
                 dict(payload, history="ancestor subtree moved"))
    else:
        acc.held("history:ancestor-moved", None)


def history_recreated_parent(acc, spec, payload):
    """History: a compound feature is replaced by a re-created Feature object of the SAME NAME (e.g. to change its
    flags) and its children are moved below the new object with add_relation; then everything is analysed."""
    from flamapy.metamodels.fm_metamodel.models import Feature, Relation
    r = rand.rng("c16-recreate", S.digest(spec))
    model = S.build(spec)
    par, objs = {}, []
    stack = [model.root]
    while stack:
        f = stack.pop()
        objs.append(f)
        for rel in f.relations:
            for c in rel.children:
                par[id(c)] = f
                stack.append(c)
    cands = [f for f in objs if f.relations and id(f) in par]
    if not cands:
        return
    x = r.choice(cands)
    new = Feature(x.name, [], is_abstract=not x.is_abstract)
    for rel in list(x.relations):
        new.add_relation(Relation(new, list(rel.children), rel.card_min, rel.card_max))
    x.relations = []
    p = par[id(x)]
    for rel in p.relations:
        for k, c in enumerate(rel.children):
            if c is x:
                rel.children[k] = new
    new.parent = p
    import copy
    es = copy.deepcopy(spec)
    for fs in S.features(es["root"]):
        if fs["name"] == x.name:
            fs["abstract"] = not fs.get("abstract", False)
    judge(acc, "history:parent-recreated-under-the-same-name", es, model, "history:parent-recreated-under-the-same-name",
          dict(payload, history=f"{x.name} re-created, children moved below the new object"))


def under_decimal_contexts(acc, spec, model, payload):
    """The operations are functions of the model: the thread's decimal context (precision, traps) must not
    change a result."""
    import decimal
    from flamapy.metamodels.fm_metamodel.operations import FMAverageBranchingFactor, FMMaxDepthTree
    nch, nb = refdefs.branching(spec)
    if nb == 0:
        return
    base = FMAverageBranchingFactor().execute(model).get_result()
    for name, setup in (("prec=4", lambda c: setattr(c, "prec", 4)), ("prec=2", lambda c: setattr(c, "prec", 2)),
                        ("trap-Inexact", lambda c: c.traps.__setitem__(decimal.Inexact, True)),
                        ("ROUND_UP", lambda c: setattr(c, "rounding", decimal.ROUND_UP))):
        with decimal.localcontext() as ctx:
            setup(ctx)
            try:
                got = FMAverageBranchingFactor().execute(model).get_result()
                depth = FMMaxDepthTree().execute(model).get_result()
            except Exception as e:  # noqa: BLE001
                acc.fail("environment:decimal-context", "no-exception", "FMAverageBranchingFactor", [],
                         f"raises:{type(e).__name__}", f"under decimal context {name}: {e}", dict(payload, context=name))
                return
        if got != base or depth != refdefs.depth(spec):
            acc.fail("environment:decimal-context", "matches-definition", "FMAverageBranchingFactor", [], "context-dependent",
                     f"{got!r} under decimal context {name}, {base!r} by default", dict(payload, context=name))
            return
    acc.held("environment:decimal-context", None)


def run_case(acc, source, spec, path):
    from flamapy.metamodels.fm_metamodel.transformations import XMLReader
    if path is not None:
        full = os.path.join(corpus.MODELS, path)
        payload = {"source": source, "path": path}
        ok, model = guard(acc, "corpus", "XMLReader", [], payload, lambda: XMLReader(full).transform(),
                          clause="harness-read-corpus")
        if not ok:
            return
        spec = S.observe(model)
        cls = "corpus"
    else:
        payload = {"source": source, "spec": spec if len(S.feature_names(spec)) <= 60 else "<large; regenerate from seed>"}
        cls = source.split(":")[0] if not source.startswith("degenerate") else source
        model = S.build(spec)
    if len(acc.samples) < 3 and source in ("shape", "corpus"):
        acc.sample({"source": source, "path": path, "features": len(S.feature_names(spec)),
                    "spec": spec if len(S.feature_names(spec)) <= 12 else "<large>"})
    judge(acc, source, spec, model, cls, payload)
    nfeat = len(S.feature_names(spec))
    if nfeat <= 400 and (path is None or nfeat <= 100) and S.digest(spec)[0] in "0123":
        under_decimal_contexts(acc, spec, model, payload)
        history_move_ancestor(acc, spec, payload)
        history_recreated_parent(acc, spec, payload)
        history_reparent(acc, source, spec, model, payload)


def direct_deep(acc, edges, side_every, only_ancestors=False):
    """Trees too deep for the harness's recursive spec walkers: built iteratively through the public constructors,
    reference values known by construction.  A spine of `edges` edges; at every `side_every`-th level an optional
    leaf is listed BEFORE the child that continues the spine (deep and branching at once).  The library is called
    under the interpreter's default recursion limit first; a RecursionError there is a refusal and the call is
    repeated under the harness's limit."""
    from flamapy.metamodels.fm_metamodel.models import Feature, Relation, FeatureModel
    from flamapy.metamodels.fm_metamodel.operations import (FMCountLeafs, FMLeafFeatures, FMMaxDepthTree,
                                                            FMAverageBranchingFactor, FMFeatureAncestors)
    from .. import env
    root = cur = Feature("Sp0", [])
    spine = [root]
    n_side = 0
    nchildren = 0
    for j in range(1, edges + 1):
        if side_every and j % side_every == 0:
            side = Feature(f"Side{j}", [])
            cur.add_relation(Relation(cur, [side], 0, 1))
            n_side += 1
            nchildren += 1
        nxt = Feature(f"Sp{j}", [])
        cur.add_relation(Relation(cur, [nxt], j % 2, 1))
        nchildren += 1
        spine.append(nxt)
        cur = nxt
    model = FeatureModel(root, [])
    cls = f"direct:spine-{edges}-side-every-{side_every}"
    payload = {"source": cls, "spec": f"<spine of {edges} edges, optional leaf first at every {side_every}th level>"}

    def call(fn):
        try:
            with env.library_recursion_limit(True):
                return fn()
        except RecursionError:
            acc.count("refused-under-default-recursion-limit")
            return fn()

    def chk(where, fn, want, show=repr):
        try:
            got = call(fn)
        except RecursionError:
            acc.count("too-deep-even-for-the-harness-limit:" + where)
            return
        except Exception as e:  # noqa: BLE001
            acc.fail(cls, "no-exception", where, [], f"raises:{type(e).__name__}", str(e)[:200], payload)
            return
        if got != want:
            acc.fail(cls, "matches-definition", where, [], "wrong-value", f"{show(got)[:120]} != {show(want)[:120]}", payload)
        else:
            acc.held(cls + "|" + where, None)

    def anc(f):
        op = FMFeatureAncestors()
        op.set_feature(f)
        return [x.name for x in op.execute(model).get_result()]
    for depth in sorted({edges, edges - 1, edges // 2, 2, 1}):
        if 0 < depth <= edges:
            chk("FMFeatureAncestors", lambda d=depth: anc(spine[d]), [f"Sp{q}" for q in range(depth - 1, -1, -1)], lambda v: f"{len(v)} ancestors {v[:3]}..")
    if only_ancestors:
        return
    chk("FMMaxDepthTree", lambda: FMMaxDepthTree().execute(model).get_result(), edges)
    chk("FMCountLeafs", lambda: FMCountLeafs().execute(model).get_result(), n_side + 1)
    chk("FMLeafFeatures", lambda: sorted(f.name for f in FMLeafFeatures().execute(model).get_result()),
        sorted([f"Side{j}" for j in range(1, edges + 1) if side_every and j % side_every == 0] + [f"Sp{edges}"]), lambda v: f"{len(v)} leaves")
    chk("FMAverageBranchingFactor", lambda: FMAverageBranchingFactor().execute(model).get_result(), round(nchildren / edges, 2))


def run_shard(desc, acc):
    for source, spec, path in cases(desc):
        run_case(acc, source, spec, path)
    deep = [(700, 1), (2500, 7), (520, 3), (66000, 0)]
    for k, (edges, side) in enumerate(deep):
        if (k + 2) % desc["nshards"] == desc["shard"]:
            direct_deep(acc, edges, side, only_ancestors=edges > 10000)


def replay(payload, acc):
    spec = payload.get("spec")
    if isinstance(spec, str):
        acc.inconc("replay needs the generating seed for large random models")
        return
    run_case(acc, payload["source"], spec, payload.get("path"))

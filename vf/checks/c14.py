"""C14 - core features are always-selected features; exactly those without constraints."""
from .. import spec as S, refsem
from ..acc import guard
from . import semops

LEVEL = "exploration"
RULE = semops_rule = ("same model space as C13 (exhaustive shapes with every cardinality, with and without "
                      "constraints, random models, FaMa suite); distinct by spec digest, non-trivial when the "
                      "model has a relation")
ASSUMPTIONS = ["always-selected sets come from the harness's 2^n enumerator (<=14 features) or, for larger "
               "constraint-free trees, from a closure over relations with min == #children, cross-validated "
               "against the enumerator on every small model"]
ANCHORS = ["fm_core_features.py:get_core_features", "fm_core_features.py:FMCoreFeatures.execute"]
plan = semops.plan


def judge(acc, source, spec, model, idx, sem_t, sem_c, tags, cls, payload, op=None):
    from flamapy.metamodels.fm_metamodel.operations import FMCoreFeatures
    W = "FMCoreFeatures"
    ok, res = guard(acc, cls, W, tags, payload, lambda: semops.call_under_default_limit(spec, lambda: (op or FMCoreFeatures()).execute(model).get_result()))
    if not ok:
        return
    key = S.digest(spec) if S.feature_names(spec)[1:] else None
    names = [getattr(f, "name", f) for f in res]
    if len(names) != len(set(names)):
        acc.fail(cls, "returned-once", W, tags, "duplicate", f"{names}", payload, key)
        return
    if spec["root"]["name"] not in names:
        acc.fail(cls, "root-included", W, tags, "root-missing", f"{names}", payload, key)
        return
    if sem_t is not None:
        always_t = refsem.always_selected(idx, sem_t)
        dp = refsem.core_dp(spec)
        if always_t != dp:
            acc.inconc("core DP disagrees with enumerator on " + S.digest(spec))
            return
        acc.count("oracle-crosscheck-core")
    else:
        always_t = refsem.core_dp(spec)
    if not spec.get("ctcs"):
        if set(names) != set(always_t):
            extra = sorted(set(names) - set(always_t))
            acc.fail(cls, "exact-without-constraints", W, tags, "not-always-selected" if extra else "missing-core",
                     f"returned={sorted(names)} always={sorted(always_t)}", payload, key)
            return
        acc.count("exact-compared")
    else:
        if sem_c:
            always_c = refsem.always_selected(idx, sem_c)
            bad = sorted(set(names) - set(always_c))
            if bad:
                acc.fail(cls, "sound-with-constraints", W, tags, "not-always-selected",
                         f"{bad} not in every configuration", payload, key)
                return
            acc.count("soundness-compared")
        else:
            acc.count("void-model-vacuous")
    acc.held(cls, key)


def run_shard(desc, acc):
    from flamapy.metamodels.fm_metamodel.operations import FMCoreFeatures
    semops.run(desc, acc, judge, "C14", FMCoreFeatures)


def replay(payload, acc):
    semops.run_case(acc, judge, "C14", payload["source"], payload["spec"])

"""C04 - the UVL reader yields the model the document denotes, or fails loudly."""
import os
import shutil
import tempfile

from .. import spec as S
from ..gen import inject, rand
from ..emit import uvl as E
from ..monitors import wf

LEVEL = "exploration"
RULE = ("positive documents: reference specs (minimal base + 1-5 injections of the UVL fragment: every group kind "
        "and cardinality form, typed features, feature cardinalities, abstract, every attribute value kind, "
        "constraints over ! & | => <=>, the six comparisons, + - * /, sum/avg with 1 and 2 arguments, len, floor, "
        "ceil, hostile quoted names) emitted by an independent reference emitter under seeded combinations of its "
        "surface knobs (each knob also exercised alone); a document is used only if the shipped grammar, run by "
        "the harness with error listeners on lexer and parser, accepts it. Negative documents: mutants of valid "
        "documents (bracket deleted/duplicated, stray/trailing operator, character no token starts with, section "
        "keyword removed, group keyword misspelled, feature where a keyword is required, broken indentation); a "
        "mutant counts only if the strict grammar run reports an error. Distinct by document text digest.")
ASSUMPTIONS = ["the denoted model of a document is the reference spec it was emitted from (exact: names, order of "
               "groups and children as written, cardinalities, types, flags, attribute values with Python types, "
               "constraint AST node for node)", "arithmetic sub-expressions are always fully parenthesised",
               "syntactic validity is decided by the shipped grammar run strictly by the harness"]
ANCHORS = ["uvl_reader.py:UVLReader.set_parse_tree", "uvl_reader.py:CustomErrorListener.syntaxError",
           "uvl_reader.py:UVLReader.process_feature", "uvl_reader.py:UVLReader._check_feature_type",
           "uvl_reader.py:UVLReader._check_feature_cardinality", "uvl_reader.py:UVLReader._check_attributes",
           "uvl_reader.py:UVLReader.process_value", "uvl_reader.py:UVLReader.process_constraints",
           "uvl_reader.py:UVLReader.process_aggregate_function_constraint",
           "uvl_reader.py:UVLReader.process_equation_constraint", "uvl_reader.py:UVLReader.process_binary_expression",
           "uvl_reader.py:UVLReader.process_parenthesis_constraint", "uvl_reader.py:UVLReader.parse_cardinality"]
NSHARDS = 16
LOG5 = ("NOT", "AND", "OR", "IMPLIES", "EQUIVALENCE")
KNOBS = ["quote_all", "redundant_parens", "merge_groups", "indent2", "indent4", "indent8", "comments", "namespace", "namespace_root",
         "imports", "imports_named", "include", "card_short", "abstract_true", "boolean_explicit", "card_for_all", "tight"]


def plan(tier, seed):
    return [{"shard": i, "nshards": NSHARDS, "n_pos": 40 if tier == "quick" else 500,
             "n_neg": 12 if tier == "quick" else 150, "n_big": 1 if tier == "quick" else 3} for i in range(NSHARDS)]


def inj_aggr(kind):
    def f(spec, r):
        names = S.feature_names(spec)
        a = r.choice(names)
        fa = next(x for x in S.features(spec["root"]) if x["name"] == a)
        if not any(at["name"] == "cost" for at in fa.get("attrs", [])):
            fa.setdefault("attrs", []).append({"name": "cost", "value": r.randint(1, 9)})
        if kind in ("SUM", "AVG"):
            inner = [kind, "cost"] if r.random() < 0.5 else [kind, "cost", a]
        else:
            inner = [kind, a + ".cost"]
        spec["ctcs"].append({"name": "x", "ast": [r.choice(S.COMPARE), inner, r.choice([3, 2.5])]})
        return spec
    return f


def inj_big_literal(spec, r):
    names = S.feature_names(spec)
    a = r.choice(names)
    fa = next(x for x in S.features(spec["root"]) if x["name"] == a)
    if not any(at["name"] == "cost" for at in fa.get("attrs", [])):
        fa.setdefault("attrs", []).append({"name": "cost", "value": 9007199254740993})
    spec["ctcs"].append({"name": "x", "ast": [r.choice(S.COMPARE), a + ".cost", r.choice([9007199254740993, 2 ** 63 - 1, 18014398509481985])]})
    return spec


def inj_root_attr_ref(spec, r):
    """A constraint that refers to an attribute of the ROOT feature (Root.cost)."""
    root = spec["root"]
    if not any(a["name"] == "cost" for a in root.get("attrs", [])):
        root.setdefault("attrs", []).append({"name": "cost", "value": 7})
    other = r.choice(S.feature_names(spec))
    spec["ctcs"].append({"name": "x", "ast": ["IMPLIES", other, [r.choice(S.COMPARE), root["name"] + ".cost", r.choice([3, 10])]]})
    return spec


def big_nonascii_spec(r, nbytes):
    """A flat catalogue whose UVL text is at least `nbytes` bytes of UTF-8: 2-, 3- and 4-byte characters in names,
    string attributes and constraint references, with line lengths that vary (so character offsets drift)."""
    alph = ["é", "ñ", "ü", "ß", "ø", "Ж", "ю", "λ", "Ω", "語", "型", "車", "機", "能", "한", "글", "𝒳", "😀"]
    kids, size, n = [], 0, 0
    while size < nbytes:
        nm = "".join(r.choice(alph) for _ in range(r.randint(3, 9))) + str(n)
        val = "".join(r.choice(alph + [" ", "a"]) for _ in range(r.randint(1, 14)))
        kids.append({"name": nm, "rels": [], "attrs": [{"name": "label", "value": val}, {"name": "cost", "value": n}]})
        size += len(nm.encode()) + len(val.encode()) + 28
        n += 1
    rels = [{"min": r.choice([0, 1]), "max": 1, "children": [c]} for c in kids]
    spec = {"root": {"name": "Catálogo", "rels": rels}, "ctcs": []}
    for a, b in zip(kids[::97], kids[50::97]):
        spec["ctcs"].append({"name": "x", "ast": ["IMPLIES", a["name"], ["OR", b["name"], ["GREATER", a["name"] + ".cost", 3]]]})
    return fix_ctcs(spec)


def classes():
    from . import roundtrip as RT
    c = [x for x in RT.UVL().classes() if not x[0].startswith("ctc:") and x[0] not in ("name:uvl-keyword",)]
    c += [("ctc:" + op, inject.inj_ctc_op(op)) for op in LOG5]
    c += [("ctc:" + s, inject.inj_ctc_shape(s, LOG5)) for s in RT.SHAPES]
    c += [("ctc:many", inject.inj_ctc_many(LOG5))]
    c += [("ctc:cmp:" + o, inject.inj_ctc_uvl("cmp:" + o)) for o in S.COMPARE]
    c += [("ctc:arith:" + o, inject.inj_ctc_uvl("arith:" + o)) for o in S.ARITH]
    c += [("ctc:" + k, inject.inj_ctc_uvl(k)) for k in ("arith:nested", "cmp:string", "cmp-under-logic")]
    c += [("ctc:aggr:" + a, inj_aggr(a)) for a in S.AGGR]
    c += [("ctc:big-int-literal", inj_big_literal), ("ctc:root-attr-ref", inj_root_attr_ref)]
    c += [("name:uvl-keyword", inject.inj_rename("name:uvl-keyword", inject.UVL_KEYWORDS))]
    return c


def fix_ctcs(spec):
    """The reference spec of a UVL document has no REQUIRES/EXCLUDES (not denotable): rewrite rename
    injections' helper constraints, and name constraints as the reader does."""
    def conv(t):
        if isinstance(t, list):
            if t[0] == "REQUIRES":
                return ["IMPLIES", conv(t[1]), conv(t[2])]
            if t[0] == "EXCLUDES":
                return ["IMPLIES", conv(t[1]), ["NOT", conv(t[2])]]
            return [t[0]] + [conv(x) for x in t[1:]]
        return t
    spec["ctcs"] = [{"name": f"Constraint {i}", "ast": conv(c["ast"])} for i, c in enumerate(spec["ctcs"])]
    return spec


def make_knobs(r, which=None):
    k = E.Knobs(r)
    chosen = [which] if which else [x for x in KNOBS if r.random() < 0.3]
    for x in chosen:
        if x == "redundant_parens":
            k.redundant_parens = r.choice([0.2, 0.5, 1.0])
        elif x.startswith("indent"):
            k.indent = " " * int(x[6:])
        elif x == "namespace_root":
            k.namespace = True
            k.namespace_root = True
        else:
            setattr(k, x, True)
    return k, chosen


def expected(spec):
    return S.norm_spec(spec)


def read(path):
    from flamapy.metamodels.fm_metamodel.transformations import UVLReader
    return UVLReader(path).transform()


def judge_positive(acc, spec, tags, knobs, chosen, work, idx):
    try:
        text = E.emit(spec, knobs)
    except ValueError:
        acc.count("emitter-cannot-express")
        return
    errs = E.strict_errors(text)
    kcls = "+".join(chosen) or "default"
    if errs:
        acc.count("emitted-doc-rejected-by-grammar(" + (kcls if len(chosen) <= 1 else "several-knobs") + ")")
        acc.extra.setdefault("rejected", []).append({"knobs": chosen, "tags": tags, "err": errs[0][:120]})
        return
    path = os.path.join(work, f"p{idx}.uvl")
    with open(path, "w", encoding="utf-8") as fh:
        fh.write(text)
    key = S.digest(text)
    cls = "valid|" + ("knob:" + kcls if len(chosen) == 1 else "knobs:%d" % len(chosen))
    payload = {"kind": "positive", "text": text, "spec": spec, "tags": tags, "knobs": knobs.describe()}
    for t in tags:
        acc.count("class:" + t)
    from flamapy.metamodels.fm_metamodel.transformations import UVLReader
    try:
        rd = UVLReader(path)
        m = rd.transform()
    except Exception as e:  # noqa: BLE001
        acc.fail(cls, "valid-document-is-read", "UVLReader", [], f"raises:{type(e).__name__}",
                 f"{type(e).__name__}: {str(e)[:160]}", payload, key)
        return
    if idx % 3 == 0:
        # history: the same reader object asked again yields the same model
        try:
            again = S.observe(rd.transform())
            if again != S.observe(m):
                acc.fail(cls, "same-reader-asked-again", "UVLReader", [], "model-differs-on-second-transform",
                         RT_first_diff(S.observe(m), again), payload, key)
                return
        except Exception as e:  # noqa: BLE001
            acc.fail(cls, "same-reader-asked-again", "UVLReader", [], f"raises:{type(e).__name__}", str(e)[:160], payload, key)
            return
    probs, _ = wf.problems(m)
    if probs:
        acc.fail(cls, "well-formed", "UVLReader", [], "not-wellformed", "; ".join(probs[:3]), payload, key)
        return
    obs, exp = S.observe(m), expected(spec)
    if obs != exp:
        acc.fail(cls, "denoted-model", "UVLReader", [], which_differs(exp, obs), RT_first_diff(exp, obs), payload, key)
        return
    if idx % 4 == 1:
        # history: the model handed out is edited in place by its owner; a byte-identical document read afterwards
        # (new reader) still denotes the document's model
        try:
            m.root.name = m.root.name + "_edited"
            m.root.is_abstract = not m.root.is_abstract
            for f in m.get_features()[:3]:
                for a in f.attributes:
                    a.default_value = "edited"
            if m.ctcs:
                m.ctcs.pop()
            path2 = os.path.join(work, f"p{idx}_copy.uvl")
            shutil.copy(path, path2)
            again = S.observe(UVLReader(path2).transform())
            if again != exp:
                acc.fail(cls, "denoted-model", "UVLReader", [], "second-read-returns-edited-objects",
                         "a byte-identical document read after the first model was edited in place: " + RT_first_diff(exp, again),
                         payload, key)
                return
        except Exception as e:  # noqa: BLE001
            acc.fail(cls, "valid-document-is-read", "UVLReader", [], f"raises:{type(e).__name__}@second-read", str(e)[:160], payload, key)
            return
    acc.held(cls, key)


def RT_first_diff(a, b):
    from .roundtrip import first_obs_diff
    return first_obs_diff(a, b)


def which_differs(exp, obs):
    if len(exp["ctcs"]) != len(obs["ctcs"]) or any(a["ast"] != b["ast"] for a, b in zip(exp["ctcs"], obs["ctcs"])):
        return "constraint-ast-differs"
    if [c["name"] for c in exp["ctcs"]] != [c["name"] for c in obs["ctcs"]]:
        return "constraint-name-differs"
    return "tree-differs"


# ----------------------------------------------------------------------------- negative documents
def mutants(text, r):
    lines = text.split("\n")
    out = []
    brackets = [i for i, ch in enumerate(text) if ch in ")]}"]
    if brackets:
        i = r.choice(brackets)
        out.append(("delete-closing-bracket", text[:i] + text[i + 1:]))
        out.append(("duplicate-closing-bracket", text[:i] + text[i] + text[i:]))
    opens = [i for i, ch in enumerate(text) if ch in "([{"]
    if opens:
        i = r.choice(opens)
        out.append(("delete-opening-bracket", text[:i] + text[i + 1:]))
    ci = next((i for i, ln in enumerate(lines) if ln.strip() == "constraints"), None)
    if ci is not None and ci + 1 < len(lines) and lines[ci + 1].strip():
        j = r.randrange(ci + 1, len([ln for ln in lines if ln.strip()]))
        if j < len(lines) and lines[j].strip() and not lines[j].strip().startswith("//"):
            for name, op in (("trailing-operator", " &"), ("trailing-implication", " =>")):
                m = list(lines)
                m[j] = m[j] + op
                out.append((name, "\n".join(m)))
            m = list(lines)
            m[j] = m[j].replace(lines[j].strip(), "| " + lines[j].strip(), 1)
            out.append(("leading-operator", "\n".join(m)))
        m = list(lines)
        del m[ci]
        out.append(("missing-constraints-keyword", "\n".join(m)))
    fi = next((i for i, ln in enumerate(lines) if ln.strip() == "features"), None)
    if fi is not None:
        m = list(lines)
        del m[fi]
        out.append(("missing-features-keyword", "\n".join(m)))
    for bad in ("@", "$", "`", "^"):
        j = r.randrange(len(lines))
        if lines[j].strip() and not lines[j].strip().startswith("//"):
            pos = r.randrange(len(lines[j]) + 1)
            if "'" in lines[j] or '"' in lines[j]:
                pos = len(lines[j])     # not inside a quoted id / string, where it would be legal
            m = list(lines)
            m[j] = m[j][:pos] + bad + m[j][pos:]
            out.append(("lexical:" + bad, "\n".join(m)))
    kw = [i for i, ln in enumerate(lines) if ln.strip() in ("mandatory", "optional", "alternative", "or")]
    if kw:
        j = r.choice(kw)
        m = list(lines)
        m[j] = m[j].replace(lines[j].strip(), lines[j].strip() + "x")
        out.append(("misspelled-group-keyword", "\n".join(m)))
        m = list(lines)
        del m[j]
        out.append(("feature-where-keyword-required", "\n".join(m)))
        m = list(lines)
        m[j] = lines[j].strip()
        out.append(("group-dedented-to-column-0", "\n".join(m)))
    body = [i for i, ln in enumerate(lines) if ln.startswith(("\t\t\t", "      "))]
    if body:
        j = r.choice(body)
        m = list(lines)
        m[j] = m[j][1:] if m[j].startswith("\t") else m[j][1:]
        if m[j].startswith("\t"):
            m[j] = " " * 11 + m[j].lstrip("\t")
        out.append(("indent-between-levels", "\n".join(m)))
    return out


def judge_negative(acc, name, text, work, idx, src_spec):
    errs = E.strict_errors(text)
    if not errs:
        acc.count("mutant-still-valid(discarded):" + name)
        return
    path = os.path.join(work, f"n{idx}.uvl")
    with open(path, "w", encoding="utf-8") as fh:
        fh.write(text)
    key = S.digest(text)
    cls = "invalid|" + name.split(":")[0]
    payload = {"kind": "negative", "text": text, "mutation": name, "grammar_error": errs[0][:200]}
    try:
        m = read(path)
    except Exception:  # noqa: BLE001 - any error is "failing loudly"
        acc.held(cls, key)
        acc.count("negative-rejected")
        return
    acc.fail(cls, "syntax-error-raises", "UVLReader", [], "model-returned",
             f"{name}: grammar says {errs[0][:120]!r} but a model with {len(m.get_features())} features was returned",
             payload, key)


def run_shard(desc, acc):
    seed, i, n = desc["seed"], desc["shard"], desc["nshards"]
    cl = classes()
    work = tempfile.mkdtemp(prefix="vf-c04-")
    valid_docs = []
    try:
        idx = 0
        for j in range(desc["n_pos"]):
            r = rand.rng(seed, "c04", i, j)
            base = inject.base(r, 4, 12)
            chosen = r.sample(cl, r.randint(1, 5))
            spec, tags = inject.apply(base, chosen, r)
            spec = fix_ctcs(spec)
            if any('"' in nm or "." in nm or "\n" in nm for nm in S.feature_names(spec)):
                continue
            # each knob alone (round robin), then random combinations
            which = KNOBS[(j + i) % len(KNOBS)] if j % 3 == 0 else (None if j % 3 == 1 else "")
            if which == "imports_named" and spec["ctcs"] is not None:
                # the alias is the name of a feature whose attribute a constraint refers to as Feature.attr
                spec = inj_root_attr_ref(spec, r) if j % 2 else inject.inj_ctc_uvl("cmp:" + S.COMPARE[j % len(S.COMPARE)])(spec, r) or spec
                spec = fix_ctcs(spec)
            if which == "":
                knobs, ch = E.Knobs(r), []
            else:
                knobs, ch = make_knobs(r, which)
            idx += 1
            judge_positive(acc, spec, tags, knobs, ch, work, idx)
            if j < desc["n_neg"]:
                try:
                    txt = E.emit(spec, E.Knobs(rand.rng(seed, "c04k", i, j)))
                    if not E.strict_errors(txt):
                        valid_docs.append((txt, spec))
                except ValueError:
                    pass
            if len(acc.samples) < 2 and tags and ch:
                acc.sample({"knobs": ch, "tags": tags, "document": E.emit(spec, knobs)[:900]})
        # documents larger than the block sizes a reader may decode in (64 KiB and multiples), with multi-byte
        # characters throughout, so that some character straddles every block boundary of every plausible size
        for j in range(desc.get("n_big", 1)):
            r = rand.rng(seed, "c04big", i, j)
            idx += 1
            judge_positive(acc, big_nonascii_spec(r, 70_000 + 9_000 * i + 66_000 * j), ["doc:big-nonascii"], E.Knobs(r), [], work, idx)
        for j, (txt, spec) in enumerate(valid_docs):
            r = rand.rng(seed, "c04neg", i, j)
            for name, mut in mutants(txt, r):
                idx += 1
                judge_negative(acc, name, mut, work, idx, spec)
    finally:
        shutil.rmtree(work, ignore_errors=True)


def replay(payload, acc):
    work = tempfile.mkdtemp(prefix="vf-c04r-")
    try:
        if payload["kind"] == "negative":
            judge_negative(acc, payload["mutation"], payload["text"], work, 0, None)
        else:
            path = os.path.join(work, "r.uvl")
            with open(path, "w", encoding="utf-8") as fh:
                fh.write(payload["text"])
            try:
                m = read(path)
                obs, exp = S.observe(m), expected(payload["spec"])
                if obs != exp:
                    acc.fail("replay", "denoted-model", "UVLReader", [], which_differs(exp, obs), RT_first_diff(exp, obs), payload)
                else:
                    acc.held("replay")
            except Exception as e:  # noqa: BLE001
                acc.fail("replay", "valid-document-is-read", "UVLReader", [], f"raises:{type(e).__name__}", str(e)[:200], payload)
    finally:
        shutil.rmtree(work, ignore_errors=True)

"""Round-trip monitor shared by C01 (UVL), C05 (JSON), C06 (AFM), C07 (FeatureIDE), C08 (Glencoe).

For a case spec s0:  t1 = W(build(s0)); m1 = R(t1); t2 = W(m1); m2 = R(t2); ... up to K cycles.
Refuting observations: writer/reader raises; m1 not well-formed; projection(observe(m1)) differs from
projection(s0); a constraint of m1 is not equivalent to its positional original; observe(m_{n+1}) !=
observe(m_n) for n>=1; t_{n+1} != t_n for n>=2 (UVL: n>=1); parser diagnostics on stderr.
"""
import contextlib
import io
import json
import os
import shutil
import tempfile

from .. import spec as S
from ..gen import inject, rand
from ..monitors import wf

NSHARDS = 16


# ----------------------------------------------------------------------------- format adapters
class Fmt:
    name = ext = None
    text_fix_from = 2          # t_{n+1} == t_n demanded for n >= this
    ctc_names = False          # constraint names are carried by the format
    ctc_exact = False          # the format stores the constraint tree itself: it must come back node for node
    fields = ()                # feature fields carried besides name/tree
    attrs = None               # None | 'value' | 'afm'

    def classes(self):
        raise NotImplementedError

    def rw(self):
        from flamapy.metamodels.fm_metamodel import transformations as T
        return getattr(T, self.writer), getattr(T, self.reader)

    # projection of a normalised spec / observation
    def proj_feature(self, f):
        extra = []
        for k in self.fields:
            v = f.get(k)
            extra.append((k, json.dumps(v, sort_keys=True, default=str)))
        if self.attrs == "value":
            extra.append(("attrs", tuple(sorted((a["name"], typed(a.get("value"))) for a in f.get("attrs", [])))))
        elif self.attrs == "afm":
            extra.append(("attrs", tuple(sorted(afm_attr(a) for a in f.get("attrs", [])))))
        rels = sorted((r["min"], r["max"], tuple(sorted(self.proj_feature(c) for c in r["children"])))
                      for r in f.get("rels", []))
        return (f["name"], tuple(extra), tuple(rels))

    def expected(self, s0):
        return s0

    def extra(self, path, model):
        """Format-specific additional clause on the first read; returns None or (clause, symptom, detail)."""
        return None


def typed(v):
    """Value with its Python type made explicit (True != 1, 1 != 1.0)."""
    if isinstance(v, (list, tuple)):
        return ("list", tuple(typed(x) for x in v))
    if isinstance(v, dict):
        return ("map", tuple(sorted((str(k), typed(x)) for k, x in v.items())))
    return (type(v).__name__, v if not isinstance(v, dict) else None)


def afm_attr(a):
    d = a.get("domain") or {"ranges": [], "elements": []}
    return (a["name"], tuple((str(x), str(y)) for x, y in d.get("ranges", [])),
            tuple(str(e) for e in d.get("elements", [])), str(a.get("default")), str(a.get("null")))


LOG8 = ("NOT", "AND", "OR", "XOR", "IMPLIES", "REQUIRES", "EXCLUDES", "EQUIVALENCE")
LOG7 = tuple(o for o in LOG8 if o != "XOR")
SHAPES = ("literal", "not-under-binary", "binary-under-not", "not-not", "low-prec-child", "right-nested",
          "left-nested", "depth3", "same-var")


def ctc_classes(ops, shapes=SHAPES):
    out = [("ctc:" + op, inject.inj_ctc_op(op)) for op in ops]
    out += [("ctc:" + s, inject.inj_ctc_shape(s, ops)) for s in shapes]
    out += [("ctc:many", inject.inj_ctc_many(ops)), ("ctc:more-than-40", inject.inj_many_ctcs(ops))]
    assoc = tuple(o for o in ("AND", "OR", "XOR") if o in ops)
    out += [("ctc:chain7-20", inject.inj_ctc_chain(assoc)), ("ctc:chain17-70", inject.inj_ctc_chain(assoc, (17, 70))),
            ("ctc:wide11-15", inject.inj_ctc_wide(tuple(o for o in ("AND", "OR", "IMPLIES") if o in ops))),
            ("ctc:duplicated", inject.inj_dup_ctc), ("ctc:shared-nodes", inject.inj_shared_nodes),
            ("ctc:duplicate-names", inject.inj_dup_ctc_names)]
    return out


def name_classes(tags, where=("any", "root", "leaf")):
    out = []
    for t in tags:
        out.append((t, inject.inj_rename(t)))
    out.append(("name:root-renamed", None))  # placeholder replaced below
    return [x for x in out if x[1] is not None]


REL_COMMON = [("rel:or", inject.inj_group(1, lambda k: k)), ("rel:alt", inject.inj_group(1, 1)),
              ("rel:nested-groups", inject.inj_nested_groups), ("rel:deep-chain", inject.inj_deep_chain),
              ("rel:wide-or-alt", lambda spec, r: spec if inject.add_group(spec, r, 1, r.choice([1, 11]), 11, leaf_only=True) else None)]
REL_CARD = [("rel:mutex", inject.inj_group(0, 1)), ("rel:card[a..b]", inject.inj_card_ab), ("rel:wide-group", inject.inj_wide_group),
            ("rel:card[n..n]", inject.inj_group(lambda k: k, lambda k: k)),
            ("rel:card[0..k]", inject.inj_group(0, lambda k: k))]
REL_MULTI = [("rel:two-groups", inject.inj_two_groups), ("rel:two-same-groups", inject.inj_two_same_groups), ("rel:group+mandatory", inject.inj_group_plus_mandatory("alt")),
             ("rel:group+optional", inject.inj_group_plus_optional), ("rel:group-on-compound", inject.inj_group_on_compound),
             ("rel:or+mandatory", inject.inj_group_plus_mandatory("or"))]


class UVL(Fmt):
    name, ext, writer, reader = "uvl", "uvl", "UVLWriter", "UVLReader"
    text_fix_from = 1
    fields = ("abstract", "ftype", "fcard")
    attrs = "value"

    def classes(self):
        c = list(REL_COMMON) + list(REL_CARD) + list(REL_MULTI)
        c += [("rel:card[a..*]", inject.inj_group(lambda k: 1 if k < 3 else 2, -1)),
              ("rel:card[0..0]", inject.inj_group(0, 0))]
        c += [("feat:abstract", inject.inj_abstract), ("feat:abstract-root", inject.inj_abstract_root)]
        c += [("feat:type:" + t, inject.inj_ftype(t)) for t in ("Integer", "Real", "String")]
        c += [("feat:fcard:" + k, inject.inj_fcard(k)) for k in ("n..m", "n..*", "n..n", "0..1")]
        c += [(t, inject.inj_attr(t)) for t in ("attr:int", "attr:float", "attr:str", "attr:bool", "attr:none",
                                                 "attr:list", "attr:list-with-bool", "attr:nested-list", "attr:nested-map",
                                                 "attr:empty-list", "attr:float-many-digits", "attr:big-int",
                                                 "attr:zero-false", "attr:empty-map", "attr:nested-map-key-abstract",
                                                 "attr:map-valueless-keys", "attr:str-syntax", "attr:list-str-syntax")]
        c += [("attr:many", inject.inj_attr_many), ("attr:name-needs-quote", inject.inj_attr_name("unit cost")),
              ("attr:name-keyword", inject.inj_attr_name("mandatory")), ("attr:null-value", inject.inj_attr_null),
              ("attr:same-list-value", inject.inj_same_list_value), ("name:strip-twin", inject.inj_strip_twin)]
        c += ctc_classes(LOG7)
        c += [("ctc:cmp:" + o, inject.inj_ctc_uvl("cmp:" + o)) for o in S.COMPARE]
        c += [("ctc:arith:" + o, inject.inj_ctc_uvl("arith:" + o)) for o in S.ARITH]
        c += [("ctc:" + k, inject.inj_ctc_uvl(k)) for k in ("aggr:sum2", "aggr:avg2", "arith:nested", "cmp:string",
                                                               "cmp-under-logic")]
        for t in ("name:space", "name:punct", "name:astop-word", "name:astop-embedded", "name:leading-digit",
                  "name:leading-underscore", "name:lower-start", "name:latin1", "name:cjk", "name:astral",
                  "name:combining", "name:squote", "name:backslash", "name:xml-special", "name:long200",
                  "name:unicode-digit", "name:line-separators", "name:numeric-looking"):
            c.append((t, inject.inj_rename(t)))
        c.append(("name:norm-twin", inject.inj_norm_twin))
        c.append(("name:dash-twin", inject.inj_dash_twin))
        c.append(("name:uvl-keyword", inject.inj_rename("name:uvl-keyword", inject.UVL_KEYWORDS)))
        c.append(("name:case-twin", inject.inj_case_twin))
        c.append(("name:root-space", inject.inj_rename("name:space", where="root")))
        return c


class JSONF(Fmt):
    name, ext, writer, reader = "json", "json", "JSONWriter", "JSONReader"
    fields = ("abstract",)
    attrs = "value"
    ctc_names = True
    ctc_exact = True           # C05: "the same named constraints" (JSON stores the expression tree)

    def extra(self, path, model):
        from flamapy.metamodels.fm_metamodel.transformations import JSONReader
        with open(path, encoding="utf-8") as fh:
            obj = json.load(fh)
        import copy
        pristine = copy.deepcopy(obj)
        try:
            m2 = JSONReader.parse_json(obj)
        except Exception as e:  # noqa: BLE001
            return ("parse_json-equals-file-read", f"raises:{type(e).__name__}@parse_json", str(e)[:200])
        if S.observe(m2) != S.observe(model):
            return ("parse_json-equals-file-read", "model-differs", first_obs_diff(S.observe(model), S.observe(m2)))
        # the caller's loaded object is input, not scratch space: unchanged afterwards, and parsing it again
        # gives the same model
        if obj != pristine:
            return ("parse_json-equals-file-read", "loaded-object-modified", "parse_json changed the JSON object it was given")
        try:
            m3 = JSONReader.parse_json(obj)
            if S.observe(m3) != S.observe(model):
                return ("parse_json-equals-file-read", "model-differs-on-second-parse", first_obs_diff(S.observe(model), S.observe(m3)))
        except Exception as e:  # noqa: BLE001
            return ("parse_json-equals-file-read", f"raises:{type(e).__name__}@second-parse_json", str(e)[:200])
        return None

    def classes(self):
        c = list(REL_COMMON) + list(REL_CARD) + list(REL_MULTI) + [("rel:card[0..0]", inject.inj_group(0, 0))]
        c += [("feat:abstract", inject.inj_abstract), ("feat:abstract-root", inject.inj_abstract_root)]
        c += [(t, inject.inj_attr(t)) for t in ("attr:int", "attr:float", "attr:str", "attr:bool", "attr:none",
                                                 "attr:list", "attr:list-with-bool", "attr:nested-list", "attr:nested-map",
                                                 "attr:str-empty", "attr:str-squote", "attr:str-dquote",
                                                 "attr:empty-list", "attr:float-many-digits", "attr:big-int",
                                                 "attr:zero-false", "attr:empty-map", "attr:nested-map-key-abstract",
                                                 "attr:map-valueless-keys", "attr:str-syntax", "attr:list-str-syntax")]
        c += [("attr:many", inject.inj_attr_many), ("attr:name-needs-quote", inject.inj_attr_name("unit cost")),
              ("attr:name-unicode", inject.inj_attr_name("coût")), ("attr:name-abstract", inject.inj_attr_named_abstract), ("attr:null-value", inject.inj_attr_null),
              ("attr:same-list-value", inject.inj_same_list_value), ("name:strip-twin", inject.inj_strip_twin)]
        c += ctc_classes(LOG8)
        c += [("ctc:name-unicode", inject.inj_ctc_name("règle №1")), ("ctc:name-quote", inject.inj_ctc_name('say "x"'))]
        for t in inject.NAME_CLASSES:
            if t != "name:afm-word":
                c.append((t, inject.inj_rename(t)))
        c.append(("name:root-space", inject.inj_rename("name:space", where="root")))
        c.append(("name:all-hostile", inject.inj_rename_all("name:punct")))
        c.append(("name:case-twin", inject.inj_case_twin))
        c.append(("name:norm-twin", inject.inj_norm_twin))
        c.append(("name:dash-twin", inject.inj_dash_twin))
        c.append(("name:nfc-twin", inject.inj_nfc_twin))
        c.append(("rel:card[a..*]", inject.inj_group(lambda k: 1 if k < 3 else 2, -1)))
        return c


def afm_case_twin(spec, r):
    """Case twins that are both AFM WORDs (Pay / PAY): swapcase would start with a lower-case letter."""
    feats = list(S.features(spec["root"]))
    if len(feats) < 3:
        return None
    a, b = r.sample(feats[1:], 2)
    twin = a["name"].upper()
    if twin == a["name"] or twin in S.feature_names(spec) or len(a["name"]) < 2:
        return None
    old = b["name"]
    b["name"] = twin
    for c in spec["ctcs"]:
        c["ast"] = inject._subst(c["ast"], old, twin)
    rest = [f["name"] for f in feats[1:] if f["name"] not in (a["name"], twin)]
    other = r.choice(rest) if rest else feats[0]["name"]
    spec["ctcs"].append({"name": "t0", "ast": ["REQUIRES", a["name"], other]})
    spec["ctcs"].append({"name": "t1", "ast": ["REQUIRES", twin, other]})
    x, t, o = a["name"], twin, other
    crossed = [["AND", ["IMPLIES", x, o], ["IMPLIES", o, t]], ["AND", ["IMPLIES", o, x], ["IMPLIES", t, o]],
               ["OR", ["AND", x, o], ["AND", o, t]], ["IMPLIES", ["OR", x, t], o],
               ["AND", ["IMPLIES", x, o], ["IMPLIES", t, o]]]
    for k, c in enumerate(r.sample(crossed, 2)):
        spec["ctcs"].append({"name": f"x{k}", "ast": c})
    return spec


class AFM(Fmt):
    name, ext, writer, reader = "afm", "afm", "AFMWriter", "AFMReader"
    attrs = "afm"

    def classes(self):
        c = list(REL_COMMON) + list(REL_CARD) + list(REL_MULTI)
        c += [("attr:afm-int-range", inject.inj_afm_attr("int-range")), ("attr:afm-two-ranges", inject.inj_afm_attr("two-ranges")), ("attr:afm-odd-ranges", inject.inj_afm_attr("odd-ranges")),
              ("attr:afm-enum", inject.inj_afm_attr("enum")), ("attr:afm-enum-strings", inject.inj_afm_attr_strings),
              ("attr:afm-same-domain", inject.inj_afm_same_domain)]
        c += ctc_classes(LOG7)
        c.append(("name:afm-word", inject.inj_rename("name:afm-word")))
        c.append(("name:afm-word-root", inject.inj_rename("name:afm-word", where="root")))
        c.append(("name:case-twin", afm_case_twin))
        return c


class FIDE(Fmt):
    name, ext, writer, reader = "fide", "xml", "FeatureIDEWriter", "FeatureIDEReader"
    fields = ("abstract",)

    def classes(self):
        c = list(REL_COMMON)
        c += [("feat:abstract", inject.inj_abstract), ("feat:abstract-root", inject.inj_abstract_root)]
        c += ctc_classes(LOG7)
        for t in inject.NAME_CLASSES:
            if t not in ("name:afm-word", "name:control"):
                c.append((t, inject.inj_rename(t)))
        c.append(("name:root-space", inject.inj_rename("name:space", where="root")))
        c.append(("name:case-twin", inject.inj_case_twin))
        c.append(("name:nfc-twin", inject.inj_nfc_twin))
        c.append(("name:strip-twin", inject.inj_strip_twin))
        c.append(("name:norm-twin", inject.inj_norm_twin))
        return c


class GLENCOE(Fmt):
    name, ext, writer, reader = "glencoe", "gfm.json", "GlencoeWriter", "GlencoeReader"
    ctc_names = True

    def classes(self):
        c = list(REL_COMMON) + list(REL_CARD)
        c += [("rel:" + k + "+mandatory", inject.inj_group_plus_mandatory(k)) for k in ("alt", "or", "mutex", "card")]
        c += [x for x in ctc_classes(LOG8) if x[0] != "ctc:duplicate-names"]   # the format keys constraints by name (C08: "distinct names")
        c += [("ctc:name-unicode", inject.inj_ctc_name("règle №1"))]
        for t in inject.NAME_CLASSES:
            if t != "name:afm-word":
                c.append((t, inject.inj_rename(t)))
        c.append(("name:root-space", inject.inj_rename("name:space", where="root")))
        c.append(("name:case-twin", inject.inj_case_twin))
        c.append(("name:nfc-twin", inject.inj_nfc_twin))
        c.append(("name:strip-twin", inject.inj_strip_twin))
        c.append(("name:norm-twin", inject.inj_norm_twin))
        return c


FORMATS = {"uvl": UVL(), "json": JSONF(), "afm": AFM(), "fide": FIDE(), "glencoe": GLENCOE()}


# ----------------------------------------------------------------------------- one case
def run_cycles(fmt, spec, cycles, workdir):
    """Execute the write/read cycles.  Returns dict(status, where, exc, obs=[...], texts=[...], wf=[...])."""
    W, R = fmt.rw()
    out = {"obs": [], "texts": [], "wf": None, "stderr": ""}
    m = S.build(spec)
    err = io.StringIO()
    with contextlib.redirect_stderr(err):
        for i in range(cycles):
            p = os.path.join(workdir, f"c{i}.{fmt.ext}")
            try:
                t = W(p, m).transform()
            except Exception as e:  # noqa: BLE001
                out.update(status="raises", where=f"writer@cycle{i + 1}", exc=e)
                break
            out["texts"].append(t if isinstance(t, str) else bytes(t).decode("utf-8", "replace"))
            if i == 0:
                out["extra"] = history_write_after_edit(fmt, W, m, spec, workdir)
                COUNTS["write-after-in-place-edit"] = COUNTS.get("write-after-in-place-edit", 0) + 1
            try:
                rd = R(p)
                m = rd.transform()
            except Exception as e:  # noqa: BLE001
                out.update(status="raises", where=f"reader@cycle{i + 1}", exc=e)
                break
            # the identity-based walker is linear even on a malformed (shared / cyclic) structure; the recursive
            # observer is only used on models the walker accepts
            w = wf.problems(m)
            if i == 0:
                out["wf"] = w
            if w[0]:
                out.update(status="malformed", where=f"reader@cycle{i + 1}", wfprobs=w[0])
                break
            if i == 0:
                out["extra"] = out.get("extra") or fmt.extra(p, m)
                if not out["extra"]:
                    # history: the same reader object asked again returns the same model (and leaves the first intact)
                    try:
                        o1 = S.observe(m)
                        m_again = rd.transform()
                        w2 = wf.problems(m_again)[0] or wf.problems(m)[0]
                        if w2:
                            out["extra"] = ("same-reader-asked-again", "not-wellformed-after-second-transform", "; ".join(w2[:3]))
                        elif S.observe(m_again) != o1:
                            out["extra"] = ("same-reader-asked-again", "model-differs-on-second-transform",
                                            first_obs_diff(o1, S.observe(m_again)))
                        elif S.observe(m) != o1:
                            out["extra"] = ("same-reader-asked-again", "first-model-changed-by-second-transform", "")
                    except Exception as e:  # noqa: BLE001
                        out["extra"] = ("same-reader-asked-again", f"raises:{type(e).__name__}@second-transform", str(e)[:200])
            try:
                out["obs"].append(S.observe(m))
            except Exception as e:  # noqa: BLE001
                out.update(status="raises", where=f"observe@cycle{i + 1}", exc=e)
                break
        else:
            out["status"] = "ok"
    out["stderr"] = err.getvalue()
    return out


def history_write_after_edit(fmt, W, m, spec, workdir):
    """History: the model was just written; edit it IN PLACE in a way the format carries (abstract flag,
    attribute value, constraint name - none of which takes part in FeatureModel.__eq__) and write it again with
    a new writer object: the text must be the text of a freshly built model with the same edit."""
    import copy
    es = copy.deepcopy(spec)
    feats_s = list(S.features(es["root"]))
    objs = []
    stack = [m.root]
    while stack:
        f = stack.pop()
        objs.append(f)
        for rel in reversed(f.relations):
            stack.extend(reversed(rel.children))
    edited = False
    # a writer object constructed BEFORE the edits and asked to transform after them (see below)
    try:
        w_pre = W(os.path.join(workdir, "pre." + fmt.ext), m)
    except Exception:  # noqa: BLE001
        w_pre = None
    orig_ctcs = m.ctcs
    names_all = S.feature_names(spec)
    if len(names_all) >= 2 and not spec.get("share_nodes"):
        # the LIST of constraints edited: one appended in place / the list reassigned with one more
        from flamapy.core.models.ast import AST
        from flamapy.metamodels.fm_metamodel.models.feature_model import Constraint
        import random as _random
        rq = _random.Random(S.digest(spec) + "q")
        added = {"name": "added-after-first-write", "ast": ["REQUIRES", names_all[-1], names_all[0]]}
        newc = Constraint(added["name"], AST(S.build_ast(added["ast"])))
        if rq.random() < 0.5:
            m.ctcs.append(newc)
        else:
            m.ctcs = list(m.ctcs) + [newc]
        es["ctcs"].append(added)
        edited = True
    if "abstract" in fmt.fields and len(objs) > 1:
        objs[-1].is_abstract = not objs[-1].is_abstract
        for f in feats_s:
            if f["name"] == objs[-1].name:
                f["abstract"] = not f.get("abstract", False)
        edited = True
    if fmt.attrs == "value":
        for f in objs:
            if f.attributes:
                f.attributes[0].default_value = 424242
                for fs in feats_s:
                    if fs["name"] == f.name:
                        fs["attrs"][0]["value"] = 424242
                edited = True
                break
    if fmt.ctc_names and m.ctcs:
        m.ctcs[0].name = "renamed-after-first-write"
        es["ctcs"][0]["name"] = "renamed-after-first-write"
        edited = True
    ast_edit = None
    logical_ctcs = [k for k, c in enumerate(spec.get("ctcs", [])) if isinstance(c["ast"], list) and S.is_logical_ast(c["ast"])
                    and len(S.ast_names(c["ast"])) <= 12]
    if logical_ctcs and not spec.get("share_nodes"):   # (an edit of a shared node is an edit of several constraints)
        # an expression tree edited in place (node attributes assigned directly, no setter, same AST object)
        import random as _random
        rr = _random.Random(S.digest(spec))
        k = rr.choice(logical_ctcs)
        allowed = tuple(o for o in ("AND", "OR", "IMPLIES") if True)
        newast = S.inplace_edit_ast(m.ctcs[k].ast, spec["ctcs"][k]["ast"], rr, S.feature_names(spec), allowed)
        if newast is not None:
            es["ctcs"][k]["ast"] = newast
            ast_edit = k
            edited = True
    if not edited:
        return None
    try:
        t_edit = W(os.path.join(workdir, "edit." + fmt.ext), m).transform()
        t_fresh = W(os.path.join(workdir, "fresh." + fmt.ext), S.build(es)).transform()
    except Exception as e:  # noqa: BLE001
        return ("write-after-in-place-edit", f"raises:{type(e).__name__}@writer", str(e)[:200])
    finally:
        # undo the edit so that the cycles continue on the original model
        m2 = S.build(spec)
    if t_edit != t_fresh:
        return ("write-after-in-place-edit", "stale-output", "output after an in-place edit differs from the output of a "
                "freshly built model with the same edit")
    if w_pre is not None:
        # the writer that was constructed before the edits: what it writes now must be the document of the model
        # as it is (or, for a writer that copies its model at construction, of the model as it was) - not a mixture
        try:
            t_pre = w_pre.transform()
            t_orig = W(os.path.join(workdir, "orig." + fmt.ext), S.build(spec)).transform()
        except Exception as e:  # noqa: BLE001
            return ("write-after-in-place-edit", f"raises:{type(e).__name__}@writer-constructed-before-edit", str(e)[:200])
        if t_pre != t_fresh and t_pre != t_orig:
            return ("write-after-in-place-edit", "mixed-output", "a writer constructed before an in-place edit wrote a document "
                    "that is neither the edited model's nor the original model's")
    # the written document must denote the EDITED model (a cache keyed by an equality that ignores the edited
    # field would serve the stale document to the fresh model as well)
    try:
        _, R = fmt.rw()
        o = S.observe(R(os.path.join(workdir, "edit." + fmt.ext)).transform())
        e = S.norm_spec(es)
        if fmt.proj_feature(o["root"]) != fmt.proj_feature(e["root"]) or (
                fmt.ctc_names and [c["name"] for c in o["ctcs"]] != [c["name"] for c in e["ctcs"]]):
            return ("write-after-in-place-edit", "stale-output", "the document written after an in-place edit does not "
                    "contain the edit: " + diff_symptom(fmt, e["root"], o["root"]))
        if ast_edit is not None and (len(o["ctcs"]) != len(e["ctcs"]) or
                                     S.equivalent(e["ctcs"][ast_edit]["ast"], o["ctcs"][ast_edit]["ast"]) is not True):
            return ("write-after-in-place-edit", "stale-constraint", "the document written after an in-place edit of an "
                    f"expression tree does not contain the edited constraint {e['ctcs'][ast_edit]['ast']}")
    except Exception as ex:  # noqa: BLE001
        return ("write-after-in-place-edit", f"raises:{type(ex).__name__}@reader", str(ex)[:200])
    # restore the original state on the live object (cycles continue with it)
    o = list(S.features(spec["root"]))
    byname = {f["name"]: f for f in o}
    for f in objs:
        f.is_abstract = bool(byname[f.name].get("abstract", False))
        for a, sa in zip(f.attributes, byname[f.name].get("attrs", [])):
            if "value" in sa:
                a.default_value = sa["value"]
    if m.ctcs is orig_ctcs:
        del m.ctcs[len(spec.get("ctcs", [])):]
    else:
        m.ctcs = orig_ctcs
    for c, sc in zip(m.ctcs, spec.get("ctcs", [])):
        c.name = sc["name"]
    if ast_edit is not None:
        from flamapy.core.models.ast import AST
        m.ctcs[ast_edit].ast = AST(S.build_ast(spec["ctcs"][ast_edit]["ast"]))
    return None


COUNTS = {}


def judge(fmt, spec, cycles, workdir):
    """Return None when the case held, else (clause, symptom, detail)."""
    s0 = S.norm_spec(spec)
    res = run_cycles(fmt, spec, cycles, workdir)
    if res["status"] == "malformed":
        return ("well-formed" if res["where"].endswith("cycle1") else "further-cycles-change-nothing", "not-wellformed",
                f"{res['where']}: " + "; ".join(res["wfprobs"][:3]))
    if res["status"] == "raises":
        e = res["exc"]
        side = res["where"].split("@")[0]
        clause = "no-exception" if res["where"].endswith("cycle1") else "later-cycle-no-exception"
        return (clause, f"raises:{type(e).__name__}@{side}", f"{res['where']}: {type(e).__name__}: {str(e)[:200]}")
    if res["stderr"].strip():
        return ("no-parser-diagnostics", "parser-stderr", res["stderr"].strip().splitlines()[0][:200])
    probs, _ = res["wf"]
    if probs:
        return ("well-formed", "not-wellformed", "; ".join(probs[:3]))
    if res.get("extra"):
        return res["extra"]
    o1 = res["obs"][0]
    exp = fmt.expected(s0)
    if fmt.proj_feature(o1["root"]) != fmt.proj_feature(exp["root"]):
        sym = diff_symptom(fmt, exp["root"], o1["root"])
        return ("same-model", sym, f"expected {brief(fmt.proj_feature(exp['root']))} got {brief(fmt.proj_feature(o1['root']))}")
    if len(o1["ctcs"]) != len(exp["ctcs"]):
        return ("same-constraints", "ctc-count", f"{len(o1['ctcs'])} constraints, expected {len(exp['ctcs'])}")
    for c0, c1 in zip(exp["ctcs"], o1["ctcs"]):
        eq = S.equivalent(c0["ast"], c1["ast"])
        if eq is not True:
            return ("same-constraints", "ctc-not-equivalent" if eq is False else "ctc-" + str(eq),
                    f"{c0['ast']} -> {c1['ast']}")
        if fmt.ctc_names and c0["name"] != c1["name"]:
            return ("same-constraints", "ctc-name", f"{c0['name']!r} -> {c1['name']!r}")
        if fmt.ctc_exact and c0["ast"] != c1["ast"]:
            return ("same-constraints", "ctc-tree-differs", f"{c0['ast']} -> {c1['ast']}")
    for n in range(1, len(res["obs"])):
        if res["obs"][n] != res["obs"][n - 1]:
            return ("further-cycles-change-nothing", "model-drift",
                    f"cycle {n + 1} model differs from cycle {n}: {first_obs_diff(res['obs'][n - 1], res['obs'][n])}")
    for n in range(fmt.text_fix_from, len(res["texts"])):
        if res["texts"][n] != res["texts"][n - 1]:
            return ("further-cycles-change-nothing", "text-drift", f"text {n + 1} differs from text {n}")
    if fmt.attrs and sum(len(f.get("attrs", [])) for f in S.features(s0["root"])) >= 2:
        v = history_edit_after_read(fmt, spec, workdir)
        if v:
            return v
        if v is False:
            COUNTS["edit-after-read"] = COUNTS.get("edit-after-read", 0) + 1
    return None


def history_edit_after_read(fmt, spec, workdir):
    """History: write, read, then edit ONE attribute of the model the reader returned in place (a value appended to
    its list/map value, an element/range added to its domain), write that model, read it back: exactly that attribute
    changed.  (Objects shared between attributes of the returned model make the edit show up elsewhere.)"""
    import copy
    from flamapy.metamodels.fm_metamodel.models import Range
    W, R = fmt.rw()
    p1 = os.path.join(workdir, "ear1." + fmt.ext)
    p2 = os.path.join(workdir, "ear2." + fmt.ext)
    try:
        W(p1, S.build(spec)).transform()
        m1 = R(p1).transform()
    except Exception:  # noqa: BLE001 - judged by the cycles
        return None
    exp = copy.deepcopy(S.observe(m1))
    target = None
    stack = [(m1.root, exp["root"])]
    while stack and target is None:
        f, fo = stack.pop()
        for a, ao in zip(f.get_attributes(), fo.get("attrs", [])):
            if fmt.attrs == "afm" and a.domain is not None:
                if a.domain.get_element_list():
                    a.domain.add_element('"edited"')
                    ao["domain"]["elements"].append('"edited"')
                else:
                    a.domain.add_range(Range(1000, 2000))
                    ao["domain"]["ranges"].append([1000, 2000])
                target = (f.name, a.name)
                break
            if fmt.attrs == "value" and isinstance(a.default_value, list):
                a.default_value.append(7)
                ao["value"].append(7)
                target = (f.name, a.name)
                break
            if fmt.attrs == "value" and isinstance(a.default_value, dict):
                a.default_value["edited"] = 7
                ao["value"]["edited"] = 7
                target = (f.name, a.name)
                break
        for rel, ro in zip(reversed(f.relations), reversed(fo.get("rels", []))):
            for c, co in zip(reversed(rel.children), reversed(ro["children"])):
                stack.append((c, co))
    if target is None:
        return None
    try:
        W(p2, m1).transform()
        o2 = S.observe(R(p2).transform())
    except Exception as e:  # noqa: BLE001
        return ("edit-after-read", f"raises:{type(e).__name__}", f"after editing {target}: {str(e)[:160]}")
    if fmt.proj_feature(o2["root"]) != fmt.proj_feature(exp["root"]):
        return ("edit-after-read", "edit-shows-elsewhere", f"one attribute ({target[0]}.{target[1]}) of the model read was "
                f"edited in place; after write/read: {first_obs_diff(exp['root'], o2['root'])}")
    return False


def brief(x, n=600):
    s = repr(x)
    return s if len(s) <= n else s[:n] + "..."


def first_obs_diff(a, b):
    ja, jb = json.dumps(a, sort_keys=True, default=str), json.dumps(b, sort_keys=True, default=str)
    i = next((k for k in range(min(len(ja), len(jb))) if ja[k] != jb[k]), min(len(ja), len(jb)))
    return f"...{ja[max(0, i - 60): i + 60]} | ...{jb[max(0, i - 60): i + 60]}"


def diff_symptom(fmt, e, o):
    """Coarse kind of difference between expected and observed trees."""
    bare = Fmt()
    if bare.proj_feature(e) != bare.proj_feature(o):
        ne = sorted(f["name"] for f in S.features(e))
        no = sorted(f["name"] for f in S.features(o))
        return "names-differ" if ne != no else "tree-differs"
    for k in fmt.fields:
        b2 = Fmt()
        b2.fields = (k,)
        if b2.proj_feature(e) != b2.proj_feature(o):
            return k + "-differs"
    return "attrs-differ"


# ----------------------------------------------------------------------------- workload
SPEED = {"uvl": 1, "afm": 3, "json": 4, "fide": 4, "glencoe": 4}   # relative budget (ANTLR parsing is slow)


def plan_for(tier, fmt="uvl"):
    k = SPEED[fmt]
    cyc = {"uvl": (3, 6), "afm": (4, 6), "json": (6, 8), "fide": (6, 8), "glencoe": (6, 8)}[fmt]
    return [{"shard": i, "nshards": NSHARDS, "bases": (3 if tier == "quick" else 12) * k,
             "per_class": 1 if tier == "quick" else 2, "multi": (12 if tier == "quick" else 80) * k,
             "cycles": cyc[0] if tier == "quick" else cyc[1],
             "large": (1 if fmt in ("uvl", "afm") else 4) if tier == "quick" else (6 if fmt in ("uvl", "afm") else 20),
             "sweep": (2500 if tier == "quick" else 10 ** 9)} for i in range(NSHARDS)]


def formula_sweep(fmt, prop, desc, acc, work):
    """Every logical constraint tree of depth<=2 over three feature names (in the format's operator
    set) is written and read back inside a model, 40 constraints per document; quick tier: all trees
    of depth<=1 plus a seeded sample of depth 2."""
    from ..gen import formulas
    ops = [o for o in (LOG8 if fmt.name in ("json", "glencoe") else LOG7) if o != "NOT"]
    allf = [f for f in formulas.formulas(2, ("A", "B", "C"), tuple(ops)) if isinstance(f, list)]
    d1 = [f for f in allf if S.ast_depth(f) <= 1]
    d2 = [f for f in allf if S.ast_depth(f) > 1]
    seed, i, n = desc["seed"], desc["shard"], desc["nshards"]
    if len(d2) > desc["sweep"]:
        d2 = rand.rng(seed, prop, "sweep").sample(d2, desc["sweep"])
    mine = [f for k, f in enumerate(d1 + d2) if k % n == i]
    r = rand.rng(seed, prop, "sweepbase", i)
    base = inject.base(r, 5, 8)
    names = S.feature_names(base)[:3]
    m = dict(zip("ABC", names))

    def sub(f):
        return [f[0]] + [sub(x) for x in f[1:]] if isinstance(f, list) else m[f]
    for c in range(0, len(mine), 40):
        chunk = [sub(f) for f in mine[c:c + 40]]
        spec = {"root": base["root"], "ctcs": [{"name": f"s{k}", "ast": a} for k, a in enumerate(chunk)]}
        verdict = judge(fmt, spec, 2 if desc["cycles"] <= 3 else 3, work)
        if not verdict:
            acc.held("formula-sweep", None, n=len(chunk))
            for a in chunk:
                acc.keys.add(S.digest(a))
            continue
        for a in chunk:   # locate the individual formulas
            one = {"root": base["root"], "ctcs": [{"name": "s0", "ast": a}]}
            v = judge(fmt, one, 2, work)
            if v:
                ops_in = sorted({"ctc:" + o for o in S.ast_ops(a)})
                acc.fail("formula-sweep", v[0], fmt.name, ops_in, v[1], v[2],
                         {"fmt": fmt.name, "spec": one, "cycles": 2, "tags": ops_in}, S.digest(a))
            else:
                acc.held("formula-sweep", S.digest(a))
    acc.count("formula-sweep-trees", len(mine))


def run_shard_for(fmt_name, prop, desc, acc, big_sizes=(20, 60)):
    fmt = FORMATS[fmt_name]
    classes = fmt.classes()
    seed, i = desc["seed"], desc["shard"]
    work = tempfile.mkdtemp(prefix=f"vf-{prop}-")
    try:
        formula_sweep(fmt, prop, desc, acc, work)
        for b in range(desc["bases"]):
            r = rand.rng(seed, prop, "base", i, b)
            if desc["tier"] == "thorough" and b % 5 == 4:
                base = inject.base(r, *big_sizes)
            else:
                base = inject.base(r)
            verdict = judge(fmt, base, desc["cycles"], work)
            payload = {"fmt": fmt_name, "spec": base, "cycles": desc["cycles"], "tags": []}
            if verdict:
                acc.fail("base", verdict[0], fmt.name, [], verdict[1], verdict[2], payload, S.digest(base))
                continue   # nothing can be attributed while the base fails
            acc.held("base", S.digest(base))
            # single injections
            for tag, fn in classes:
                for k in range(desc["per_class"]):
                    rr = rand.rng(seed, prop, "inj", i, b, tag, k)
                    spec, tags = inject.apply(base, [(tag, fn)], rr)
                    if not tags:
                        acc.count("injection-not-applicable:" + tag)
                        continue
                    one_case(acc, fmt, prop, spec, [tag], desc["cycles"], work, tag)
            # multi-injection cases
            for k in range(desc["multi"] // desc["bases"] + 1):
                rr = rand.rng(seed, prop, "multi", i, b, k)
                chosen = rr.sample(classes, rr.randint(2, 4))
                spec, tags = inject.apply(base, chosen, rr)
                if len(tags) < 2:
                    continue
                verdict = judge(fmt, spec, desc["cycles"], work)
                key = S.digest(spec)
                if not verdict:
                    acc.held("multi", key)
                    continue
                # attribution: which single injections fail on this base?
                culprits = []
                for tag, fn in chosen:
                    if tag not in tags:
                        continue
                    for att in range(3):
                        s1, t1 = inject.apply(base, [(tag, fn)], rand.rng(seed, prop, "attr", i, b, k, tag, att))
                        if t1 and judge(fmt, s1, desc["cycles"], work):
                            culprits.append(tag)
                            break
                payload = {"fmt": fmt_name, "spec": spec, "cycles": desc["cycles"], "tags": tags}
                if culprits:
                    acc.fail("multi", verdict[0], fmt.name, culprits, "*", f"[{'+'.join(tags)}] {verdict[1]}: {verdict[2]}",
                             payload, key)
                else:
                    acc.fail("multi", verdict[0], fmt.name, [], "interaction:" + verdict[1],
                             f"[{'+'.join(tags)}] no single injection fails but the combination does: {verdict[2]}",
                             payload, key)
            if len(acc.samples) < 2:
                acc.sample({"base": base, "classes": [t for t, _ in classes][:12], "n_classes": len(classes)})
        # large models: 60-150 features with several injections (size/width/depth thresholds)
        for b in range(desc.get("large", 0)):
            r = rand.rng(seed, prop, "large", i, b)
            if fmt_name == "uvl":      # (ANTLR parsing of the Python UVL grammar is slow: smaller "large" models)
                base = inject.base(r, 60 if b % 2 == 0 else 90, 90 if b % 2 == 0 else 130)
            else:
                base = inject.base(r, 60 if b % 2 == 0 else 130, 230 if b % 2 == 0 else 320)
            if judge(fmt, base, desc["cycles"], work):
                acc.fail("large-base", "same-model", fmt.name, [], "large-base-fails", "a 60-150 feature base fails",
                         {"fmt": fmt_name, "spec": base, "cycles": desc["cycles"], "tags": []}, S.digest(base))
                continue
            spec, tags = inject.apply(base, r.sample(classes, r.randint(3, 8)), r)
            verdict = judge(fmt, spec, desc["cycles"], work)
            if verdict:
                # attribute by single injections on the large base
                culprits = [t for t, fn in classes if t in tags and
                            (lambda s1t: s1t[1] and judge(fmt, s1t[0], desc["cycles"], work))(
                                inject.apply(base, [(t, fn)], rand.rng(seed, prop, "largeattr", i, b, t)))]
                acc.fail("large", verdict[0], fmt.name, culprits, "*" if culprits else "interaction:" + verdict[1],
                         f"[{'+'.join(tags)}] {verdict[1]}: {verdict[2]}",
                         {"fmt": fmt_name, "spec": spec, "cycles": desc["cycles"], "tags": tags}, S.digest(spec))
            else:
                acc.held("large", S.digest(spec))
    finally:
        shutil.rmtree(work, ignore_errors=True)
        for k, v in COUNTS.items():       # what the history monitors inside judge() actually ran
            acc.count("history:" + k, v)
        COUNTS.clear()


def one_case(acc, fmt, prop, spec, tags, cycles, work, cls):
    verdict = judge(fmt, spec, cycles, work)
    key = S.digest(spec)
    if verdict:
        acc.fail(cls, verdict[0], fmt.name, tags, verdict[1], verdict[2],
                 {"fmt": fmt.name, "spec": spec, "cycles": cycles, "tags": tags}, key)
    else:
        acc.held(cls, key)


def replay_for(payload, acc):
    fmt = FORMATS[payload["fmt"]]
    work = tempfile.mkdtemp(prefix="vf-replay-")
    try:
        one_case(acc, fmt, "replay", payload["spec"], payload.get("tags", []), payload.get("cycles", 3), work, "replay")
    finally:
        shutil.rmtree(work, ignore_errors=True)

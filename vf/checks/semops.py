"""Shared workload for C13 (estimate), C14 (core features), C15 (atomic sets): the real operation
is executed on a real model built from a spec; an independent enumerator gives the reference
configuration set of the same spec.
"""
import glob
import os

from .. import env, spec as S, refsem
from ..acc import guard
from ..gen import shapes, rand, formulas

NSHARDS = 16
BASIC = {"mandatory", "optional", "alternative", "or"}


def rel_class(r):
    k = len(r["children"])
    mn, mx = r["min"], r["max"]
    kind = S.rel_kind(r)
    if mx == -1:
        return "rel:card[a..*]"
    if kind in BASIC:
        return kind
    if mx == 0:
        return "rel:dead[0..0]"
    if kind == "mutex":
        return "rel:mutex"
    if mn == mx == k:
        return "rel:card[n..n]"
    return "rel:card[a..b]"


def model_tags(spec):
    return sorted({rel_class(r) for _, r in S.relations(spec)} - BASIC)


def plan(tier, seed):
    nmax = 6 if tier == "quick" else 7
    return [{"shard": i, "nshards": NSHARDS, "nmax": nmax,
             "n_random_small": 150 if tier == "quick" else 40000,
             "n_random_large": 40 if tier == "quick" else 8000,
             "sample8": 0 if tier == "quick" else 100000} for i in range(NSHARDS)]


def fama_specs():
    from flamapy.metamodels.fm_metamodel.transformations import XMLReader
    base = os.path.join(env.REPO, "resources", "models", "fama_test_suite")
    out = []
    for p in sorted(glob.glob(os.path.join(base, "**", "*.xml"), recursive=True)):
        m = XMLReader(p).transform()
        out.append((os.path.relpath(p, base), S.norm_spec(S.observe(m))))
    simple = os.path.join(env.REPO, "resources", "models", "simple", "example.xml")
    if os.path.exists(simple):
        out.append(("simple/example.xml", S.norm_spec(S.observe(XMLReader(simple).transform()))))
    return out


def with_ctcs(spec, r, n_ctcs, pool):
    names = S.feature_names(spec)
    ctcs = []
    for i in range(n_ctcs):
        sub = r.sample(names, min(3, len(names)))
        while len(sub) < 3:
            sub.append(r.choice(names))
        f = r.choice(pool)
        ctcs.append({"name": f"c{i}", "ast": subst(f, dict(zip("ABC", sub)))})
    return {"root": spec["root"], "ctcs": ctcs}


def subst(f, m):
    if isinstance(f, list):
        return [f[0]] + [subst(x, m) for x in f[1:]]
    return m[f]


def cases(desc):
    """Yield (source, spec).  Deterministic in (seed, shard)."""
    i, n = desc["shard"], desc["nshards"]
    seed = desc["seed"]
    pool = [f for f in formulas.formulas(2) if isinstance(f, list)]
    idx = 0
    for spec in shapes.all_specs(desc["nmax"]):
        idx += 1
        if idx % n != i:
            continue
        yield "shape", spec
        nf = len(S.feature_names(spec))
        if nf >= 2:
            r = rand.rng(seed, "semops", idx)
            yield "shape+ctc", with_ctcs(spec, r, r.randint(1, 3), pool)
    if desc.get("sample8"):
        e = shapes.Enum(shapes.cards_all)
        trees8 = e.trees(8)
        r = rand.rng(seed, "semops8", i)
        for _ in range(desc["sample8"] // n):
            yield "shape8", shapes.to_spec(r.choice(trees8))
    for j in range(desc["n_random_small"]):
        if j % n != i:
            continue
        r = rand.rng(seed, "semops-rs", j)
        nf = r.randint(2, 13)
        yield "random-small", rand.rand_model(
            r, nf, n_ctcs=r.choice([0, 0, 1, 2, 4]), ctc_depth=3,
            group_kinds=("alternative", "or", "mutex", "cardinality", "dead"),
            solitary_kinds=("mandatory", "optional", "optional", "dead"),
            profile=r.choice(["mixed", "deep", "wide"]))
    for j in range(desc["n_random_large"]):
        if j % n != i:
            continue
        r = rand.rng(seed, "semops-rl", j)
        yield "random-large", rand.rand_model(
            r, r.choice([r.randint(15, 80), r.randint(126, 400)]), n_ctcs=0,
            group_kinds=("alternative", "or", "mutex", "cardinality"),
            profile=r.choice(["mixed", "deep", "wide"]))
    # unbounded upper bounds ([a..*] is stored as max = -1 by the UVL reader)
    for j in range(max(8, desc["n_random_small"] // 4)):
        if j % n != i:
            continue
        r = rand.rng(seed, "semops-star", j)
        spec = rand.rand_model(r, r.randint(3, 12), n_ctcs=r.choice([0, 0, 1]), ctc_depth=2,
                               group_kinds=("alternative", "or", "mutex", "cardinality"))
        rels = [rel for _, rel in S.relations(spec)]
        for rel in r.sample(rels, max(1, len(rels) // 2)):
            k = len(rel["children"])
            rel["min"], rel["max"] = r.choice([(k, -1), (1, -1), (0, -1), (min(2, k), -1)])
        yield "random-star", spec
    # wide groups (size thresholds): one group of k leaves under the root (+ a second level for some), every
    # kind of cardinality; k<=13 is judged by enumeration, larger k by the DP oracles
    wide = [9, 10, 11, 12, 13, 16, 25, 40, 57, 58, 64, 80, 100]
    for wi, k in enumerate(wide):
        if wi % n != i % len(wide) and (wi + len(wide)) % n != i:
            continue
        r = rand.rng(seed, "semops-wide", k)
        cards = [(1, 1), (1, k), (0, 1), (0, k), (k, k), (2, k - 1), (k // 2, k // 2), (1, 2), (k - 1, k),
                 (r.randint(0, k // 2), r.randint(k // 2, k)), (3, k // 2 + 1), (0, k - 1), (2, 40 if k > 40 else k - 2)]
        for mn, mx in cards:
            if not (0 <= mn <= mx <= k) or mx < 1:
                continue
            kids = [{"name": f"G{j}", "rels": []} for j in range(k)]
            spec = {"root": {"name": "W", "rels": [{"min": mn, "max": mx, "children": kids}]}, "ctcs": []}
            yield "wide-group", spec
            if k <= 12:
                # different subtrees below the members, and a sibling relation
                spec2 = {"root": {"name": "W", "rels": [
                    {"min": mn, "max": mx, "children": [dict(c, rels=[{"min": 0, "max": 1, "children": [{"name": c["name"] + "x", "rels": []}]}]
                                                              if j == 0 else []) for j, c in enumerate(kids)]}]}, "ctcs": []}
                yield "wide-group", spec2
            if k >= 16:
                spec3 = {"root": {"name": "W", "rels": [
                    {"min": mn, "max": mx, "children": [dict(c, rels=[{"min": 1, "max": 2, "children": [
                        {"name": c["name"] + "a", "rels": []}, {"name": c["name"] + "b", "rels": []}]}] if j % 7 == 0 else [])
                        for j, c in enumerate(kids)]},
                    {"min": 0, "max": 1, "children": [{"name": "Opt", "rels": []}]}]}, "ctcs": []}
                yield "wide-group", spec3
    # very wide [n..n] / [n..*] groups (beyond CPython's small-int cache)
    for wi, k in enumerate((257, 300, 1000)):
        if (wi + 5) % n == i:
            for mn, mx in ((k, k), (k, -1), (1, 1), (k - 1, k)):
                kids = [{"name": f"G{j}", "rels": [{"min": 1, "max": 1, "children": [{"name": f"G{j}m", "rels": []}]}] if j == 3 else []}
                        for j in range(k)]
                yield "very-wide-group", {"root": {"name": "W", "rels": [{"min": 1, "max": 1, "children": [{"name": "First", "rels": []}]},
                                                                         {"min": mn, "max": mx, "children": kids}]}, "ctcs": []}
    # groups of more than 1024 members (one of them not a leaf), and a feature with more than 1000 one-child relations
    for wi, k in enumerate((1100, 2050)):
        if (wi + 3) % n == i:
            for mn, mx in ((2, -1), (2, k), (0, 1), (1, 1), (1, k)):
                kids = [{"name": f"G{j}", "rels": [{"min": 0, "max": 1, "children": [{"name": f"G{j}o", "rels": []}]}] if j == 7 else []}
                        for j in range(k)]
                yield "very-wide-group", {"root": {"name": "W", "rels": [{"min": mn, "max": mx, "children": kids}]}, "ctcs": []}
    for wi, k in enumerate((1100,)):
        if (wi + 6) % n == i:
            rels = [{"min": j % 2, "max": 1, "children": [{"name": f"Item{j:04d}", "rels": []}]} for j in range(k)]
            yield "very-wide-and", {"root": {"name": "Catalogue", "rels": rels}, "ctcs": []}
    # deep AND branching: at every level a shallower sibling is listed BEFORE the child that continues the spine; some
    # levels have two relations whose children have different numbers of configurations
    for wi, depth in enumerate((300, 700, 1300)):
        if (wi + 11) % n == i:
            root = cur = {"name": "B0", "rels": []}
            for j in range(1, depth):
                nxt = {"name": f"B{j}", "rels": []}
                if j % 5 == 0:
                    cur["rels"].append({"min": 0, "max": 1, "children": [{"name": f"S{j}", "rels": [
                        {"min": 0, "max": 1, "children": [{"name": f"S{j}x", "rels": []}]}]}]})
                    cur["rels"].append({"min": 1, "max": 1, "children": [{"name": f"M{j}", "rels": []}]})
                elif j % 3 == 0:
                    cur["rels"].append({"min": 0, "max": 1, "children": [{"name": f"S{j}", "rels": []}]})
                cur["rels"].append({"min": 1 if j % 50 else 0, "max": 1, "children": [nxt]})
                cur = nxt
            yield "very-deep-branching", {"root": root, "ctcs": []}
    # several requires constraints from always-selected features to features nested in one another's mandatory subtree
    if i == 4 % n:
        import itertools
        tree = {"name": "R", "rels": [
            {"min": 1, "max": 1, "children": [{"name": "A", "rels": []}]},
            {"min": 1, "max": 1, "children": [{"name": "Bm", "rels": []}]},
            {"min": 0, "max": 1, "children": [{"name": "X", "rels": [
                {"min": 1, "max": 1, "children": [{"name": "Y", "rels": [{"min": 1, "max": 1, "children": [{"name": "Z", "rels": []}]}]}]},
                {"min": 0, "max": 1, "children": [{"name": "Q", "rels": []}]}]}]},
            {"min": 0, "max": 1, "children": [{"name": "Other", "rels": []}]}]}
        reqs = [["REQUIRES", "A", "Y"], ["REQUIRES", "R", "X"], ["REQUIRES", "Bm", "Z"], ["IMPLIES", "A", "X"], ["REQUIRES", "Other", "Q"]]
        for kk in (2, 3):
            for combo in itertools.permutations(reqs, kk):
                yield "requires-nested-targets", {"root": tree, "ctcs": [{"name": f"c{q}", "ast": a} for q, a in enumerate(combo)]}
    # upper bounds larger than the number of members (accepted by the UVL reader; also what is left when a member is
    # removed from a group in place): [k..k+1], [1..2] over one child, [0..3] over two
    if i == 7 % n:
        for k in (1, 2, 3):
            for mn, mx in ((k, k + 1), (k, k + 3), (0, k + 1), (1, k + 2), (k - 1 if k > 1 else 0, k + 1)):
                if mn < 0 or mx < 1:
                    continue
                kids = [{"name": f"K{j}", "rels": [{"min": 1, "max": 1, "children": [{"name": f"K{j}m", "rels": []}]}] if j == 0 else []}
                        for j in range(k)]
                yield "card-max-exceeds-members", {"root": {"name": "W", "rels": [
                    {"min": mn, "max": mx, "children": kids}, {"min": 0, "max": 1, "children": [{"name": "Opt", "rels": []}]}]}, "ctcs": []}
    # chains deeper than a default Python stack, alternating optional/mandatory links
    for wi, depth in enumerate((600, 1500, 3000)):
        if (wi + 9) % n == i:
            root = cur = {"name": "V0", "rels": []}
            for j in range(1, depth):
                nxt = {"name": f"V{j}", "rels": []}
                cur["rels"].append({"min": j % 2, "max": 1, "children": [nxt]})
                cur = nxt
            yield "very-deep-chain", {"root": root, "ctcs": []}
            # the same depth with one-child relations of unusual cardinalities ([0..*], [1..*], [0..2], [1..3]) on the way
            root = cur = {"name": "U0", "rels": []}
            for j in range(1, depth):
                nxt = {"name": f"U{j}", "rels": []}
                card = {0: (0, -1), 7: (1, -1), 13: (0, 2), 21: (1, 3)}.get(j % 29, (j % 2, 1))
                cur["rels"].append({"min": card[0], "max": card[1], "children": [nxt]})
                if j % 29 in (0, 7):
                    cur["rels"].append({"min": 0, "max": 1, "children": [{"name": f"U{j}s", "rels": []}]})
                cur = nxt
            yield "very-deep-chain-odd-cards", {"root": root, "ctcs": []}
    # deep chains (depth thresholds) with mixed mandatory/optional links and a group at the bottom
    for depth in (12, 20, 40):
        if depth % n != i:
            continue
        root = cur = {"name": "D0", "rels": []}
        for j in range(1, depth):
            nxt = {"name": f"D{j}", "rels": []}
            cur["rels"].append({"min": 1 if j % 3 else 0, "max": 1, "children": [nxt]})
            cur = nxt
        cur["rels"].append({"min": 1, "max": 2, "children": [{"name": "La", "rels": []}, {"name": "Lb", "rels": []}]})
        yield "deep-chain", {"root": root, "ctcs": []}
    if i == 0:
        for name, spec in fama_specs():
            yield "fama:" + name, spec


def reference(spec, acc):
    """(idx, sem_without_ctcs or None, sem_with_ctcs or None).  Brute force up to 14 features,
    cross-validated against the tree generator; None when too large."""
    n = len(S.feature_names(spec))
    if n > 14:
        return None, None, None
    idx, sem_t = refsem.brute(dict(spec, ctcs=[]), with_ctcs=False)
    if n <= 12:
        _, sem_g = refsem.treegen(dict(spec, ctcs=[]), with_ctcs=False)
        acc.count("oracle-crosscheck")
        if sem_g != sem_t or refsem.count(spec) != len(sem_t):
            acc.inconc("reference enumerators disagree on " + S.digest(spec))
            return None, None, None
    if spec.get("ctcs"):
        sem_c = {m for m in sem_t if all(refsem._ctc_eval(c["ast"], idx, m) for c in spec["ctcs"])}
    else:
        sem_c = sem_t
    return idx, sem_t, sem_c


def call_under_default_limit(spec, fn):
    """Library calls run under the interpreter's default recursion limit whenever the tree is shallow enough
    for a recursive traversal to fit into it."""
    try:
        with env.library_recursion_limit(True):
            return fn()
    except RecursionError:
        # too deep for a user's default stack: a refusal, not a result; judge the call under the harness's limit
        return fn()


def run(desc, acc, judge, prop, op_factory=None):
    """judge(acc, source, spec, model, idx, sem_tree, sem_ctc, tags, cls, payload, op) performs the property's oracle."""
    for k, (source, spec) in enumerate(cases(desc)):
        run_case(acc, judge, prop, source, spec, op_factory, k)


def run_case(acc, judge, prop, source, spec, op_factory=None, case_no=0):
    tags = model_tags(spec)
    cls = source.split(":")[0] + ("|" + "+".join(tags) if tags else "")
    payload = {"source": source, "spec": spec if len(S.feature_names(spec)) <= 80 else None}
    ok, model = guard(acc, cls, "builder", [], payload, lambda: S.build(spec), clause="harness-build")
    if not ok:
        return
    idx, sem_t, sem_c = reference(spec, acc)
    before = S.snapshot_or_none(model)
    op = op_factory() if op_factory else None
    judge(acc, source, spec, model, idx, sem_t, sem_c, tags, cls, payload, op)
    after = S.snapshot_or_none(model)
    if before != after:
        acc.fail(cls, "model-unchanged", prop, [], "mutated", S.first_diff(before, after), payload)
    if len(acc.samples) < 4 and source.startswith("shape+"):
        acc.sample({"source": source, "spec": spec})
    # history: a result handed out by an operation object stays what it was when the same object analyses
    # another model afterwards
    if op is not None and case_no % 7 == 3:
        from .c19 import val
        try:
            r1 = op.execute(model).get_result()
            d1 = S.digest(val(r1))
            other = S.build({"root": {"name": "Other9", "rels": [{"min": 0, "max": 1, "children": [{"name": "OtherLeaf9", "rels": []}]}]},
                             "ctcs": []})
            op.execute(other).get_result()
            if S.digest(val(r1)) != d1:
                acc.fail("history:earlier-result", "earlier-result-unchanged", prop, [], "earlier-result-overwritten",
                         "the object returned for this model changed when the same operation object analysed another model",
                         payload)
            else:
                acc.held("history:earlier-result", None)
            # the caller empties the container it was given; the next execution on the same model is judged afresh
            r2 = op.execute(model).get_result()
            if isinstance(r2, list):
                r2.clear()
                judge(acc, "history:caller-emptied-result", spec, model, idx, sem_t, sem_c, tags,
                      "history:caller-emptied-result", dict(payload, history="caller emptied the returned list"), op)
        except Exception as e:  # noqa: BLE001
            acc.fail("history:earlier-result", "no-exception", prop, [], f"raises:{type(e).__name__}", str(e)[:200], payload)
    # history: the SAME model object is edited in place through public attributes/methods and analysed again
    # with the SAME operation object (and the first result must not leak into the second)
    if op is not None and case_no % 5 == 0 and len(S.feature_names(spec)) >= 2:
        import copy
        r = rand.rng("semops-edit", S.digest(spec))
        es = copy.deepcopy(spec)
        rels_s = [(f, k) for f in S.features(es["root"]) for k in range(len(f.get("rels", [])))]
        fs, k = r.choice(rels_s)
        rel_s = fs["rels"][k]
        n = len(rel_s["children"])
        choices = [(a, b) for a in range(0, n + 1) for b in range(max(a, 1), n + 1) if (a, b) != (rel_s["min"], rel_s["max"])]
        newcard = r.choice(choices)
        # locate the live relation (same pre-order position)
        live = None
        stack = [model.root]
        while stack:
            f = stack.pop()
            if f.name == fs["name"]:
                live = f.relations[k]
                break
            for rel in reversed(f.relations):
                stack.extend(reversed(rel.children))
        live.card_min, live.card_max = newcard
        rel_s["min"], rel_s["max"] = newcard
        if r.random() < 0.5:
            from flamapy.metamodels.fm_metamodel.models import Feature, Relation
            owner = model.root
            nf = Feature("Added9", [])
            owner.add_relation(Relation(owner, [nf], 1, 1))
            es["root"]["rels"].append({"min": 1, "max": 1, "children": [{"name": "Added9", "rels": []}]})
        idx2, sem_t2, sem_c2 = reference(es, acc)
        tags2 = model_tags(es)
        cls2 = "history:edit-in-place" + ("|" + "+".join(tags2) if tags2 else "")
        payload2 = {"source": "history:edit-in-place", "spec": es if len(S.feature_names(es)) <= 80 else None,
                    "before_edit": payload["spec"]}
        if hasattr(op, "get_configurations_number") and not es.get("ctcs"):
            # second public entry point asked right after the edit, before any new execute()
            try:
                direct = op.get_configurations_number()
                want = len(sem_t2) if sem_t2 is not None else refsem.count(es)
                if direct != want:
                    acc.fail(cls2, "exact-without-constraints", "FMEstimatedConfigurationsNumber.get_configurations_number",
                             tags2, "stale-direct-call", f"get_configurations_number()={direct} after an in-place edit, exact={want}",
                             payload2)
            except Exception as e:  # noqa: BLE001
                acc.fail(cls2, "no-exception", "FMEstimatedConfigurationsNumber.get_configurations_number", tags2,
                         f"raises:{type(e).__name__}", str(e)[:200], payload2)
        if not (sem_t2 is None and es.get("ctcs")):
            judge(acc, "history:edit-in-place", es, model, idx2, sem_t2, sem_c2, tags2, cls2, payload2, op)
    # history: the model is analysed while still under construction (one child attached with Relation.add_child,
    # its parent pointer not yet set), then the pointer is set and the same operation object analyses it again
    if op is not None and case_no % 5 == 1 and len(S.feature_names(spec)) >= 2:
        r = rand.rng("semops-construct", S.digest(spec))
        m2 = S.build(spec)
        kids = []
        stack = [m2.root]
        while stack:
            f = stack.pop()
            for rel in f.relations:
                for c in rel.children:
                    kids.append((f, c))
                    stack.append(c)
        owner, child = r.choice(kids)
        child.parent = None
        try:
            op.execute(m2).get_result()
        except Exception:  # noqa: BLE001 - the half-built model is outside the property's domain
            pass
        child.parent = owner
        cls3 = "history:parent-pointer-set-later" + ("|" + "+".join(tags) if tags else "")
        judge(acc, "history:parent-pointer-set-later", spec, m2, idx, sem_t, sem_c, tags, cls3,
              dict(payload, history=f"parent of {child.name} set after a first analysis"), op)
    # history: an execution that raises in the middle of the traversal (a relation that temporarily holds something
    # that is not a Feature - at the end of the tree, at the end and at the start of the root's relations), the model
    # is repaired AND extended somewhere else, the same operation object analyses it
    if op is not None and case_no % 5 == 2 and len(S.feature_names(spec)) >= 3:
        import copy
        from flamapy.metamodels.fm_metamodel.models import Feature, Relation
        for variant in ("late", "root-last", "root-first"):
            m3 = S.build(spec)
            es = copy.deepcopy(spec)
            live = []
            stack = [m3.root]
            while stack:
                f = stack.pop()
                live.append(f)
                for rel in reversed(f.relations):
                    stack.extend(reversed(rel.children))
            with_rels = [f for f in live if f.relations]
            if not with_rels:
                break
            if variant == "late":
                bad_rel, at = with_rels[-1].relations[-1], None
            elif variant == "root-last":
                bad_rel, at = m3.root.relations[-1], None
            else:
                bad_rel, at = m3.root.relations[0], 0
            if at is None:
                bad_rel.children.append("not a feature")
            else:
                bad_rel.children.insert(0, "not a feature")
            raised = False
            try:
                op.execute(m3).get_result()
            except Exception:  # noqa: BLE001 - the malformed model is outside the property's domain
                raised = True
            bad_rel.children.remove("not a feature")
            # extend below a feature that is not a member of the repaired relation (first and last such, pre-order)
            cands = [f for f in live if f is not m3.root and not any(c is f for c in bad_rel.children)] or [m3.root]
            for q, tgt in enumerate({id(cands[0]): cands[0], id(cands[-1]): cands[-1]}.values()):
                nm = f"Later9{q}"
                tgt.add_relation(Relation(tgt, [Feature(nm, [])], 0, 1))
                for fs in S.features(es["root"]):
                    if fs["name"] == tgt.name:
                        fs.setdefault("rels", []).append({"min": 0, "max": 1, "children": [{"name": nm, "rels": []}]})
                        break
            idx4, sem_t4, sem_c4 = reference(es, acc)
            tags4 = model_tags(es)
            cls4 = "history:after-a-failed-execution" + ("|" + "+".join(tags4) if tags4 else "")
            if raised:
                acc.count("history:first-execution-raised-mid-traversal")
            if sem_t4 is None and es.get("ctcs"):
                acc.count("history-skipped(no reference for a model of this size with constraints)")
                continue
            judge(acc, "history:after-a-failed-execution", es, m3, idx4, sem_t4, sem_c4, tags4, cls4,
                  {"source": "history:after-a-failed-execution", "spec": es if len(S.feature_names(es)) <= 80 else None,
                   "before_edit": payload["spec"], "variant": variant}, op)
    # history: a feature is moved by attaching it to its new parent FIRST and removing it from the old one afterwards
    if op is not None and case_no % 5 == 3 and len(S.feature_names(spec)) >= 3:
        import copy
        from flamapy.metamodels.fm_metamodel.models import Relation
        r = rand.rng("semops-attach-detach", S.digest(spec))
        m4 = S.build(spec)
        es = copy.deepcopy(spec)
        par, objs = {}, []
        stack = [m4.root]
        while stack:
            f = stack.pop()
            objs.append(f)
            for rel in f.relations:
                for c in rel.children:
                    par[id(c)] = f
                    stack.append(c)
        movable = [f for f in objs if id(f) in par]
        f = r.choice(movable)
        sub = set()
        st = [f]
        while st:
            x = st.pop()
            sub.add(id(x))
            for rel in x.relations:
                st.extend(rel.children)
        dests = [d for d in objs if id(d) not in sub and d is not par[id(f)]]
        if dests:
            dest = r.choice(dests)
            old = par[id(f)]
            try:
                op.execute(m4).get_result()
            except Exception:  # noqa: BLE001 - judged by the main case
                pass
            card = r.choice([(1, 1), (0, 1)])
            dest.add_relation(Relation(dest, [f], card[0], card[1]))           # attach ...
            for rel in list(old.relations):                                    # ... then detach
                if any(c is f for c in rel.children):
                    rel.children.remove(f)
                    if not rel.children:
                        old.relations.remove(rel)
                    elif rel.card_min > len(rel.children):                     # (keep the group satisfiable)
                        rel.card_min = len(rel.children)
            moved = None
            for fs in S.features(es["root"]):
                for rel in list(fs.get("rels", [])):
                    for c in list(rel["children"]):
                        if c["name"] == f.name and fs["name"] == old.name:
                            rel["children"].remove(c)
                            moved = c
                            if not rel["children"]:
                                fs["rels"].remove(rel)
                            elif rel["min"] > len(rel["children"]):
                                rel["min"] = len(rel["children"])
            if moved is not None:
                for fs in S.features(es["root"]):
                    if fs["name"] == dest.name:
                        fs.setdefault("rels", []).append({"min": card[0], "max": card[1], "children": [moved]})
                        break
                for rel in S.relations(es):
                    pass
                idx5, sem_t5, sem_c5 = reference(es, acc)
                tags5 = model_tags(es)
                cls5 = "history:moved-attach-then-detach" + ("|" + "+".join(tags5) if tags5 else "")
                if not (sem_t5 is None and es.get("ctcs")):
                  judge(acc, "history:moved-attach-then-detach", es, m4, idx5, sem_t5, sem_c5, tags5, cls5,
                      {"source": "history:moved-attach-then-detach", "spec": es if len(S.feature_names(es)) <= 80 else None,
                       "before_edit": payload["spec"]}, op)

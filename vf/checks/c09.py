"""C09 - third-party documents are read as their format defines."""
import os
import shutil
import tempfile

from .. import spec as S, corpus
from ..gen import inject, rand
from ..emit import thirdparty as TP
from ..monitors import wf
from . import roundtrip as RT

LEVEL = "exploration"
RULE = ("documents emitted by four independent reference emitters (FeatureIDE XML, FaMa XML, AFM, Glencoe JSON) from "
        "reference specs = base + 1-4 injections of the respective fragment, under each surface knob alone and "
        "random knob combinations (attribute order, optional attributes present with either value or absent, "
        "n-ary rules, graphics/description elements, missing/empty constraints section, cardinality placement, "
        "mixed-case tags, ids different from names, key order, whitespace); plus the shipped FaMa corpus (quick: "
        "<=1000 features, thorough: all 1299 files) compared with an independent ElementTree parser and, for the "
        "1250 Betty models, with the .statistics ground truth measured on the observation. Distinct by document "
        "digest / file path.")
ASSUMPTIONS = ["FeatureIDE: children of <and> are mandatory iff mandatory=\"true\"; <or>/<alt> form one group of all "
               "children; n-ary conj/disj mean the conjunction/disjunction of all operands",
               "an exception on a construct without counterpart in the metamodel (FeatureIDE <description>) is an "
               "accepted rejection, tallied separately",
               "Glencoe semantics taken from the field names only (no offline definition available)",
               "Betty statistics keys used: those that agree with the harness's definitions on the reference "
               "parser's own output (calibrated; listed in the evidence)"]
ANCHORS = ["featureide_reader.py:FeatureIDEReader._read_feature_model", "featureide_reader.py:FeatureIDEReader._read_features",
           "featureide_reader.py:FeatureIDEReader._parse_rule", "xml_reader.py:XMLReader.parse_feature",
           "xml_reader.py:XMLReader.parse_relation", "xml_reader.py:XMLReader.parse_ctc",
           "afm_reader.py:AFMReader.read_children", "afm_reader.py:AFMReader.read_attribute",
           "afm_reader.py:AFMReader.build_ast_node", "glencoe_reader.py:GlencoeReader._parse_tree",
           "glencoe_reader.py:GlencoeReader._parse_ast_constraint"]
NSHARDS = 16
KNOBS = {"fide": ["attr-order", "mandatory-false", "abstract-false", "graphics", "nary", "no-constraints",
                  "empty-constraints", "siblings", "compact", "standalone", "description", "hidden-attr",
                  "mandatory-in-group"],
         "fama": ["card-after", "attr-order", "mixed-case", "compact", "set-for-single", "repeat-ctc"],
         "afm": ["spaces", "group-first", "parens", "empty-blocks", "blocks"],
         "glencoe": ["ids", "key-order", "nary", "notes", "ids-are-other-names"]}
LOG5 = ("NOT", "AND", "OR", "IMPLIES", "EQUIVALENCE")


def plan(tier, seed):
    return [{"shard": i, "nshards": NSHARDS, "n_docs": 30 if tier == "quick" else 2500,
             "corpus_max": 1000 if tier == "quick" else 10 ** 9} for i in range(NSHARDS)]


def spec_classes(fmt):
    if fmt == "fide":
        c = list(RT.REL_COMMON) + [("feat:abstract", inject.inj_abstract), ("feat:abstract-root", inject.inj_abstract_root)]
        c += [("ctc:" + op, inject.inj_ctc_op(op)) for op in LOG5]
        c += [("ctc:" + s, inject.inj_ctc_shape(s, LOG5)) for s in RT.SHAPES] + [("ctc:many", inject.inj_ctc_many(LOG5))]
        c += [("ctc:chain", chain("AND")), ("ctc:chain-or", chain("OR"))]
        c += [("ctc:chain-very-long", chain("AND", True)), ("ctc:chain-or-very-long", chain("OR", True))]
        c += [(t, inject.inj_rename(t)) for t in ("name:space", "name:xml-special", "name:latin1", "name:cjk", "name:squote")]
        c += [("name:case-twin", inject.inj_case_twin)]
        return c
    if fmt == "fama":
        c = list(RT.REL_COMMON) + list(RT.REL_CARD) + list(RT.REL_MULTI) + [("rel:card[0..0]", inject.inj_group(0, 0))]
        c += [("ctc:REQUIRES", inject.inj_ctc_op("REQUIRES")), ("ctc:EXCLUDES", inject.inj_ctc_op("EXCLUDES"))]
        c += [(t, inject.inj_rename(t)) for t in ("name:space", "name:xml-special", "name:latin1", "name:dquote")]
        c += [("name:case-twin", inject.inj_case_twin)]
        return c
    if fmt == "afm":
        return [x for x in RT.AFM().classes()]
    if fmt == "glencoe":
        c = [x for x in RT.GLENCOE().classes() if x[0] not in ("rel:mutex", "rel:mutex+mandatory")]
        c += [("ctc:chain", chain("AND")), ("ctc:chain-or", chain("OR"))]
        c += [("ctc:chain-very-long", chain("AND", True)), ("ctc:chain-or-very-long", chain("OR", True))]
        return c
    raise KeyError(fmt)


def chain(op, very_long=False):
    def f(spec, r):
        names = S.feature_names(spec)
        k = r.choice([r.randint(3, 5), r.randint(6, 12), r.choice([13, 15, 16, 17, 18, 24, 31, 32, 33, 34])])
        if very_long:
            k = r.choice([65, 127, 128, 129, 150, 255, 256, 257, 300, 513])
        if very_long or k > len(names):
            # every operand a distinct feature (operands lost from a rule over repeated names would not change
            # its meaning): k fresh optional leaves under the root
            fresh = [f"Vl{j}x{len(spec['ctcs'])}" for j in range(k)]
            for nm in fresh:
                spec["root"].setdefault("rels", []).append({"min": 0, "max": 1, "children": [{"name": nm, "rels": []}]})
            names = fresh
        xs = [names[j % len(names)] for j in range(k)]
        r.shuffle(xs)
        t = xs[0]
        for x in xs[1:]:
            t = [op, t, x]
        spec["ctcs"].append({"name": f"chain{len(spec['ctcs'])}", "ast": t})
        return spec
    return f


def fix_spec(fmt, spec):
    """Make the reference spec denotable in the format."""
    def conv(t):
        if isinstance(t, list):
            if t[0] == "REQUIRES" and fmt in ("fide",):
                return ["IMPLIES", conv(t[1]), conv(t[2])]
            if t[0] == "EXCLUDES" and fmt in ("fide",):
                return ["IMPLIES", conv(t[1]), ["NOT", conv(t[2])]]
            return [t[0]] + [conv(x) for x in t[1:]]
        return t
    if fmt == "fama":
        spec["ctcs"] = [c for c in spec["ctcs"] if isinstance(c["ast"], list) and c["ast"][0] in ("REQUIRES", "EXCLUDES")
                        and not isinstance(c["ast"][1], list) and not isinstance(c["ast"][2], list)]
    else:
        spec["ctcs"] = [{"name": c["name"], "ast": conv(c["ast"])} for c in spec["ctcs"]]
    return spec


READERS = {"fide": ("FeatureIDEReader", "xml"), "fama": ("XMLReader", "xml"), "afm": ("AFMReader", "afm"),
           "glencoe": ("GlencoeReader", "gfm.json")}
PROJ = {"fide": RT.FIDE(), "fama": RT.Fmt(), "afm": RT.AFM(), "glencoe": RT.GLENCOE()}
EMIT = {"fide": TP.fide, "fama": TP.fama, "afm": TP.afm, "glencoe": TP.glencoe}


def judge_doc(acc, fmt, text, exp, knobs, tags, work, idx, earlier=None):
    """earlier: a document that the SAME reader object read from the same path before the file was replaced by
    `text` (history: a reader object is kept and asked again after the file was re-exported)."""
    import contextlib
    import io
    from flamapy.metamodels.fm_metamodel import transformations as T
    R = getattr(T, READERS[fmt][0])
    path = os.path.join(work, f"d{idx}.{READERS[fmt][1]}")
    reader = None
    if earlier is not None:
        with open(path, "w", encoding="utf-8") as fh:
            fh.write(earlier)
        reader = R(path)
        try:
            with contextlib.redirect_stderr(io.StringIO()):
                reader.transform()
        except Exception:  # noqa: BLE001 - the earlier document is judged on its own elsewhere
            reader = None
    with open(path, "w", encoding="utf-8") as fh:
        fh.write(text)
    kn = sorted(knobs)
    cls = f"{fmt}|" + ("knob:" + kn[0] if len(kn) == 1 else f"knobs:{len(kn)}")
    if earlier is not None:
        if reader is None:
            return
        cls = f"{fmt}|history:reader-object-kept-file-replaced"
    key = S.digest([text, earlier])
    payload = {"fmt": fmt, "text": text, "expected": exp, "knobs": kn, "tags": tags, "earlier": earlier}
    err = io.StringIO()
    try:
        with contextlib.redirect_stderr(err):
            m = (reader or R(path)).transform()
    except Exception as e:  # noqa: BLE001
        if "description" in knobs and "<description>" in text:
            acc.held(cls + "|rejected-unrepresentable", key)
            acc.count("rejected-unrepresentable:description")
            return
        acc.fail(cls, "document-is-read", R.__name__, [], f"raises:{type(e).__name__}",
                 f"{type(e).__name__}: {str(e)[:150]}", payload, key)
        return
    if err.getvalue().strip():
        acc.fail(cls, "no-parser-diagnostics", R.__name__, [], "parser-stderr", err.getvalue().strip()[:200], payload, key)
        return
    probs, _ = wf.problems(m)
    if probs:
        acc.fail(cls, "well-formed", R.__name__, [], "not-wellformed", "; ".join(probs[:3]), payload, key)
        return
    obs = S.observe(m)
    fm = PROJ[fmt]
    e = S.norm_spec(exp)
    if fm.proj_feature(obs["root"]) != fm.proj_feature(e["root"]):
        acc.fail(cls, "denoted-model", R.__name__, [], RT.diff_symptom(fm, e["root"], obs["root"]),
                 f"expected {RT.brief(fm.proj_feature(e['root']), 400)} got {RT.brief(fm.proj_feature(obs['root']), 400)}",
                 payload, key)
        return
    if len(obs["ctcs"]) != len(e["ctcs"]):
        acc.fail(cls, "denoted-constraints", R.__name__, [], "ctc-count",
                 f"{len(obs['ctcs'])} constraints read, {len(e['ctcs'])} in the document", payload, key)
        return
    for c0, c1 in zip(e["ctcs"], obs["ctcs"]):
        eq = S.equivalent(c0["ast"], c1["ast"])
        if eq is not True:
            acc.fail(cls, "denoted-constraints", R.__name__, [], "ctc-not-equivalent", f"{c0['ast']} read as {c1['ast']}",
                     payload, key)
            return
        if fmt in ("fama", "glencoe") and c0["name"] != c1["name"]:
            acc.fail(cls, "denoted-constraints", R.__name__, [], "ctc-name", f"{c0['name']!r} read as {c1['name']!r}",
                     payload, key)
            return
        if fmt == "fama" and c0["ast"] != c1["ast"]:
            acc.fail(cls, "denoted-constraints", R.__name__, [], "ctc-ast", f"{c0['ast']} read as {c1['ast']}", payload, key)
            return
    acc.held(cls, key)


def betty_measure(spec):
    """The .statistics quantities measured on an observation."""
    feats = list(S.features(spec["root"]))
    out = {"features": len(feats), "mandatory": 0, "optional": 0, "or_rels": 0, "alt_rels": 0, "or_children": 0,
           "alt_children": 0, "max_set": 0, "max_branching": 0}
    for f in feats:
        out["max_branching"] = max(out["max_branching"], sum(len(r["children"]) for r in f.get("rels", [])))
        for r in f.get("rels", []):
            k = len(r["children"])
            if k == 1 and (r["min"], r["max"]) == (1, 1):
                out["mandatory"] += 1
            elif k == 1 and (r["min"], r["max"]) == (0, 1):
                out["optional"] += 1
            elif k > 1:
                out["max_set"] = max(out["max_set"], k)
                if (r["min"], r["max"]) == (1, 1):
                    out["alt_rels"] += 1
                    out["alt_children"] += k
                else:
                    out["or_rels"] += 1
                    out["or_children"] += k
    ct = spec.get("ctcs", [])
    out["ctcs"] = len(ct)
    out["requires"] = sum(1 for c in ct if isinstance(c["ast"], list) and c["ast"][0] == "REQUIRES")
    out["excludes"] = sum(1 for c in ct if isinstance(c["ast"], list) and c["ast"][0] == "EXCLUDES")
    return out


BETTY_KEYS = ("features", "mandatory", "optional", "or_rels", "alt_rels", "or_children", "alt_children", "max_set",
              "ctcs", "requires", "excludes")


def judge_corpus(acc, rel):
    from flamapy.metamodels.fm_metamodel.transformations import XMLReader
    full = os.path.join(corpus.MODELS, rel)
    payload = {"path": rel}
    key = S.digest(rel)
    ref = S.norm_spec(corpus.parse_fama(full))
    try:
        m = XMLReader(full).transform()
    except Exception as e:  # noqa: BLE001
        acc.fail("corpus", "document-is-read", "XMLReader", [], f"raises:{type(e).__name__}", str(e)[:200], payload, key)
        return
    probs, _ = wf.problems(m)
    if probs:
        acc.fail("corpus", "well-formed", "XMLReader", [], "not-wellformed", "; ".join(probs[:3]), payload, key)
        return
    obs = S.observe(m)
    if obs != ref:
        acc.fail("corpus", "denoted-model", "XMLReader", [], "differs-from-reference-parser",
                 RT.first_obs_diff(ref, obs), payload, key)
        return
    st = os.path.splitext(full)[0] + ".statistics"
    if os.path.exists(st):
        truth = corpus.parse_statistics(st)
        got = betty_measure(obs)
        bad = {k: (got[k], truth[k]) for k in BETTY_KEYS if k in truth and got[k] != truth[k]
               and not (k == "max_set" and got["or_rels"] + got["alt_rels"] == 0)}   # Betty prints 1 when there is no set relation
        if bad:
            acc.fail("corpus:betty", "betty-ground-truth", "XMLReader", [], "statistics-differ", f"(measured, truth) {bad}",
                     payload, key)
            return
        acc.count("betty-statistics-compared")
        acc.held("corpus:betty", key)
    else:
        acc.held("corpus:fama-suite", key)


def run_shard(desc, acc):
    seed, i, n = desc["seed"], desc["shard"], desc["nshards"]
    work = tempfile.mkdtemp(prefix="vf-c09-")
    try:
        idx = 0
        for fmt in ("fide", "fama", "afm", "glencoe"):
            cl = spec_classes(fmt)
            for j in range(desc["n_docs"]):
                r = rand.rng(seed, "c09", fmt, i, j)
                base = inject.base(r, 4, 12)
                chosen = r.sample(cl, r.randint(1, 4))
                spec, tags = inject.apply(base, chosen, r)
                spec = fix_spec(fmt, spec)
                if fmt == "afm" and any(not (nm[:1].isupper() and nm.isalnum() and nm.isascii()) for nm in S.feature_names(spec)):
                    continue
                ks = KNOBS[fmt]
                if j % 3 == 0:
                    knobs = {ks[(j // 3 + i) % len(ks)]}
                elif j % 3 == 1:
                    knobs = set()
                else:
                    knobs = {k for k in ks if r.random() < 0.35}
                if any(t.startswith("ctc:chain") for t in tags) and fmt in ("fide", "glencoe") and (
                        r.random() < 0.8 or any("very-long" in t for t in tags)):
                    knobs = set(knobs) | {"nary"}     # long chains are what other tools write as ONE n-ary rule
                if "no-constraints" in knobs:
                    spec["ctcs"] = []
                text, exp = EMIT[fmt](spec, r, knobs)
                if text is None:
                    continue
                idx += 1
                judge_doc(acc, fmt, text, exp, knobs, tags, work, idx)
                if j % 4 == 0 and not any("very-long" in t for t in tags):
                    # the same reader object reads the path again after the file was replaced by a re-export in
                    # which one feature is renamed (ids, where the format has them, stay what they were)
                    import copy
                    nm = S.feature_names(spec)
                    old_name = r.choice(nm)
                    new_name = old_name + "Renamed"
                    if new_name not in nm and (fmt != "afm" or new_name.isalnum()):
                        st = r.getstate()
                        spec2 = copy.deepcopy(spec)
                        for f in S.features(spec2["root"]):
                            if f["name"] == old_name:
                                f["name"] = new_name
                        spec2["ctcs"] = [{"name": c["name"], "ast": S.rename_ast(c["ast"], {old_name: new_name})} for c in spec2["ctcs"]]
                        if fmt == "glencoe":
                            text2, exp2 = TP.glencoe(spec2, r, knobs, keep_ids={new_name: old_name})
                        else:
                            text2, exp2 = EMIT[fmt](spec2, r, knobs)
                        if text2 is not None:
                            idx += 1
                            judge_doc(acc, fmt, text2, exp2, knobs, tags, work, idx, earlier=text)
                if len(acc.samples) < 4 and knobs and j % 7 == 0:
                    acc.sample({"fmt": fmt, "knobs": sorted(knobs), "tags": tags, "document": text[:700]})
        files = [(p, s) for p, s in corpus.fama_files() if (s or 0) <= desc["corpus_max"]]
        for j, (p, s) in enumerate(files):
            if j % n == i:
                judge_corpus(acc, p)
    finally:
        shutil.rmtree(work, ignore_errors=True)


def replay(payload, acc):
    work = tempfile.mkdtemp(prefix="vf-c09r-")
    try:
        if "path" in payload:
            judge_corpus(acc, payload["path"])
        else:
            judge_doc(acc, payload["fmt"], payload["text"], payload["expected"], set(payload["knobs"]), payload["tags"], work, 0,
                      earlier=payload.get("earlier"))
    finally:
        shutil.rmtree(work, ignore_errors=True)

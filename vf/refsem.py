"""Reference semantics of a (spec-level) Boolean feature model, independent of the library.

Sem(m) = set of selections S (bitmasks over the pre-order feature list) such that: root in S;
every selected non-root feature has its parent selected; for every relation of a selected
feature min <= |children ∩ S| <= max (max -1 = unbounded); children of unselected features are
unselected; every logical constraint evaluates to true.

Two independent enumerators are provided and cross-validated by the checks:
* brute(): filter over all 2^n bitmasks,
* treegen(): generate the configurations bottom-up per subtree, then filter by the constraints,
and a tree DP count() for constraint-free trees of any size.
"""
import itertools
from . import spec as S


class Idx:
    def __init__(self, spec):
        self.spec = spec
        self.feats = list(S.features(spec["root"]))
        self.names = [f["name"] for f in self.feats]
        self.bit = {n: 1 << i for i, n in enumerate(self.names)}
        self.n = len(self.names)
        self.parent = {}
        self.rels = []  # (parent bit, [child bits], min, max)
        for f in self.feats:
            for r in f.get("rels", []):
                cb = [self.bit[c["name"]] for c in r["children"]]
                mx = r["max"] if r["max"] != -1 else len(cb)
                self.rels.append((self.bit[f["name"]], cb, r["min"], mx))
                for c in r["children"]:
                    self.parent[c["name"]] = f["name"]
        self.rootbit = self.bit[spec["root"]["name"]]

    def names_of(self, mask):
        return frozenset(n for n in self.names if mask & self.bit[n])


def _ctc_eval(ast, idx, mask):
    env = _Env(idx, mask)
    return S.ev(ast, env)


class _Env:
    __slots__ = ("idx", "mask")

    def __init__(self, idx, mask):
        self.idx, self.mask = idx, mask

    def __getitem__(self, name):
        b = self.idx.bit.get(name)
        if b is None:
            # a name that is not a feature of the model can never be selected
            return False
        return bool(self.mask & b)


def tree_ok(idx, mask):
    if not mask & idx.rootbit:
        return False
    for pb, cbs, mn, mx in idx.rels:
        cnt = 0
        for cb in cbs:
            if mask & cb:
                cnt += 1
        if mask & pb:
            if cnt < mn or cnt > mx:
                return False
        elif cnt:
            return False
    return True


def brute(spec, with_ctcs=True):
    idx = Idx(spec)
    ctcs = [c["ast"] for c in spec.get("ctcs", [])] if with_ctcs else []
    out = set()
    for mask in range(1 << idx.n):
        if tree_ok(idx, mask) and all(_ctc_eval(a, idx, mask) for a in ctcs):
            out.add(mask)
    return idx, out


def treegen(spec, with_ctcs=True):
    idx = Idx(spec)

    def gen(f):
        """All masks of the subtree of f in which f is selected."""
        res = [idx.bit[f["name"]]]
        for r in f.get("rels", []):
            kids = r["children"]
            k = len(kids)
            mx = r["max"] if r["max"] != -1 else k
            kid_cfgs = [gen(c) for c in kids]
            opts = []
            for size in range(r["min"], min(mx, k) + 1):
                for combo in itertools.combinations(range(k), size):
                    for prod in itertools.product(*[kid_cfgs[i] for i in combo]):
                        m = 0
                        for p in prod:
                            m |= p
                        opts.append(m)
            res = [a | b for a in res for b in opts]
        return res

    masks = gen(spec["root"])
    ctcs = [c["ast"] for c in spec.get("ctcs", [])] if with_ctcs else []
    out = set(m for m in masks if all(_ctc_eval(a, idx, m) for a in ctcs))
    if len(out) != len(masks) and not ctcs:
        raise AssertionError("treegen produced duplicate masks")
    return idx, out


def count(spec):
    """Number of configurations of the constraint-free tree (DP with elementary symmetric sums)."""
    def cnt(f):
        total = 1
        for r in f.get("rels", []):
            cs = [cnt(c) for c in r["children"]]
            k = len(cs)
            mx = r["max"] if r["max"] != -1 else k
            # e[j] = elementary symmetric polynomial of degree j over cs
            e = [1] + [0] * k
            for c in cs:
                for j in range(k, 0, -1):
                    e[j] += e[j - 1] * c
            total *= sum(e[j] for j in range(r["min"], min(mx, k) + 1))
        return total
    return cnt(spec["root"])


def always_selected(idx, sem):
    if not sem:
        return None
    m = (1 << idx.n) - 1
    for s in sem:
        m &= s
    return idx.names_of(m)


def core_dp(spec):
    """Always-selected features of a constraint-free tree whose relations satisfy
    0<=min<=max<=k: closure from the root over relations with min == k."""
    out = set()
    stack = [spec["root"]]
    while stack:
        f = stack.pop()
        out.add(f["name"])
        for r in f.get("rels", []):
            k = len(r["children"])
            mx = r["max"] if r["max"] != -1 else k
            if r["min"] == k and mx >= k:
                stack.extend(r["children"])
    return frozenset(out)

"""Runs the pinned test suite of the repository in a subprocess with the ambient contracts enabled and
feeds what the contracts observed into the accumulator of the calling check."""
import json
import os
import subprocess
import tempfile

from . import env


def run_pinned_tests(acc, select):
    """select: iterable of contract-name prefixes this check is responsible for."""
    fd, out = tempfile.mkstemp(prefix="vf-contracts-", suffix=".json")
    os.close(fd)
    try:
        cenv = env.child_env({"VF_CONTRACT_OUT": out})
        p = subprocess.run([env.PYTHON, "-m", "pytest", "-q", "-p", "no:cacheprovider", "-p", "vf.pytest_contracts",
                            "-x", "--timeout=900"], cwd=env.REPO, env=cenv, timeout=1500,
                           stdout=subprocess.PIPE, stderr=subprocess.STDOUT)
        tail = p.stdout.decode(errors="replace")[-400:]
        try:
            with open(out, encoding="utf-8") as fh:
                data = json.load(fh)
        except Exception:  # noqa: BLE001
            acc.inconc("pinned tests under contracts produced no contract log: " + tail)
            return
        n = 0
        for name, cnt in data["evaluations"].items():
            if any(name.startswith(s) for s in select):
                acc.count("contract-evaluations(pinned-tests):" + name, cnt)
                n += cnt
        if n == 0:
            acc.inconc("ambient contracts were never evaluated during the pinned tests")
        bad = [v for v in data["violations"] if any(v["contract"].startswith(s) for s in select)]
        for v in bad[:20]:
            acc.fail("pinned-tests-under-contracts", "contract:" + v["contract"].split(":")[0], "ambient-contract", [],
                     "contract-broken", v["detail"], {"kind": "contract", "contract": v["contract"]})
        if not bad:
            acc.held("pinned-tests-under-contracts", "pinned-suite", n=1)
        if p.returncode != 0:
            acc.count("pinned-tests-exit-nonzero-under-contracts")
            acc.extra["pinned_tail"] = tail
    finally:
        try:
            os.remove(out)
        except OSError:
            pass

#!/bin/sh
# usage: with_patch.sh <patch-file | revert:<sha>> <check-id>... ; runs the quick checks against a scratch
# worktree of /repo (outside /repo and /verif) with the change applied, then removes the worktree.
set -e
P="$1"; shift
WT=$(mktemp -d /tmp/vf-wt-XXXXXX)
rmdir "$WT"
git -C /repo worktree add -q --detach "$WT" HEAD
trap 'git -C /repo worktree remove --force "$WT" >/dev/null 2>&1; rm -rf "$WT"' EXIT
case "$P" in
  revert:*) git -C "$WT" revert --no-commit "${P#revert:}" >/dev/null ;;
  *) git -C "$WT" apply "$P" ;;
esac
if [ -n "$RUN_TESTS" ]; then (cd "$WT" && PYTHONPATH="$WT" /venv/bin/python -m pytest -q -p no:cacheprovider 2>&1 | tail -1); fi
cd /verif
for c in "$@"; do
  VF_REPO="$WT" VF_EVIDENCE_DIR=/tmp/vf-selftest-evidence ./check "$c" 2>&1 | grep -E "^(VIOLATION|C[0-9]+ |INCONCLUSIVE)" | cut -c1-260 | head -${LINES_MAX:-6}
done

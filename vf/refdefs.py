"""Reference definitions of the tree-shape operations, relation classes and metrics, computed on
the observed spec only (no library query is used)."""
from . import spec as S


def leaves(spec):
    return [f["name"] for f in S.features(spec["root"]) if not f.get("rels")]


def depth(spec):
    """Number of edges on the longest root-to-leaf path."""
    best = 0
    stack = [(spec["root"], 0)]
    while stack:
        f, d = stack.pop()
        if d > best:
            best = d
        for r in f.get("rels", []):
            for c in r["children"]:
                stack.append((c, d + 1))
    return best


def leaf_depths(spec):
    out = []
    stack = [(spec["root"], 0)]
    while stack:
        f, d = stack.pop()
        if not f.get("rels"):
            out.append(d)
        for r in f.get("rels", []):
            for c in r["children"]:
                stack.append((c, d + 1))
    return out


def branching(spec):
    """(sum of children, number of non-leaf features)."""
    nch = nb = 0
    for f in S.features(spec["root"]):
        if f.get("rels"):
            nb += 1
            nch += sum(len(r["children"]) for r in f["rels"])
    return nch, nb


def ancestors(spec):
    """name -> [parent, grandparent, ..., root]."""
    par = S.parents(spec)
    out = {}
    for n in S.feature_names(spec):
        chain = []
        p = par.get(n)
        while p is not None:
            chain.append(p)
            p = par.get(p)
        out[n] = chain
    return out


def variation_points(spec):
    out = {}
    for f in S.features(spec["root"]):
        v = []
        for r in f.get("rels", []):
            if not (len(r["children"]) == 1 and r["min"] == 1 and r["max"] == 1):
                v.extend(c["name"] for c in r["children"])
        if v:
            out[f["name"]] = sorted(v)
    return out


def rel_class(mn, mx, k):
    """The six classes of C03 (None for a one-child relation that is neither [1,1] nor [0,1])."""
    if k == 1:
        return {(1, 1): "mandatory", (0, 1): "optional"}.get((mn, mx))
    if (mn, mx) == (1, 1):
        return "alternative"
    if (mn, mx) == (1, k):
        return "or"
    if (mn, mx) == (0, 1):
        return "mutex"
    return "cardinal"

"""Reference definitions of the tree-shape operations, relation classes and metrics, computed on
the observed spec only (no library query is used)."""
from . import spec as S


def leaves(spec):
    return [f["name"] for f in S.features(spec["root"]) if not f.get("rels")]


def depth(spec):
    """Number of edges on the longest root-to-leaf path."""
    best = 0
    stack = [(spec["root"], 0)]
    while stack:
        f, d = stack.pop()
        if d > best:
            best = d
        for r in f.get("rels", []):
            for c in r["children"]:
                stack.append((c, d + 1))
    return best


def leaf_depths(spec):
    out = []
    stack = [(spec["root"], 0)]
    while stack:
        f, d = stack.pop()
        if not f.get("rels"):
            out.append(d)
        for r in f.get("rels", []):
            for c in r["children"]:
                stack.append((c, d + 1))
    return out


def branching(spec):
    """(sum of children, number of non-leaf features)."""
    nch = nb = 0
    for f in S.features(spec["root"]):
        if f.get("rels"):
            nb += 1
            nch += sum(len(r["children"]) for r in f["rels"])
    return nch, nb


def ancestors(spec):
    """name -> [parent, grandparent, ..., root]."""
    par = S.parents(spec)
    out = {}
    for n in S.feature_names(spec):
        chain = []
        p = par.get(n)
        while p is not None:
            chain.append(p)
            p = par.get(p)
        out[n] = chain
    return out


def variation_points(spec):
    out = {}
    for f in S.features(spec["root"]):
        v = []
        for r in f.get("rels", []):
            if not (len(r["children"]) == 1 and r["min"] == 1 and r["max"] == 1):
                v.extend(c["name"] for c in r["children"])
        if v:
            out[f["name"]] = sorted(v)
    return out


def rel_class(mn, mx, k):
    """The six classes of C03 (None for a one-child relation that is neither [1,1] nor [0,1])."""
    if k == 1:
        return {(1, 1): "mandatory", (0, 1): "optional"}.get((mn, mx))
    if (mn, mx) == (1, 1):
        return "alternative"
    if (mn, mx) == (1, k):
        return "or"
    if (mn, mx) == (0, 1):
        return "mutex"
    return "cardinal"


# ----------------------------------------------------------------------------- metrics (C17)
def _round2(x):
    return round(x, 2)


def metrics_reference(spec):
    """name -> dict(result=..., size=..., share_of=<name of the listing it is a share of | None>,
    kind='listing'|'scalar'|'value').  Constraint-kind listings are not defined here (they are judged
    against the Constraint predicates, which C18 judges semantically)."""
    import statistics
    feats = list(S.features(spec["root"]))
    names = [f["name"] for f in feats]
    par = S.parents(spec)
    grouped, solitary, mandatory, optional = [], [], [], []
    for f in feats:
        for r in f.get("rels", []):
            k = len(r["children"])
            for c in r["children"]:
                (grouped if k > 1 else solitary).append(c["name"])
                if k == 1 and (r["min"], r["max"]) == (1, 1):
                    mandatory.append(c["name"])
                if k == 1 and (r["min"], r["max"]) == (0, 1):
                    optional.append(c["name"])
    abstract = [f["name"] for f in feats if f.get("abstract")]
    concrete = [f["name"] for f in feats if not f.get("abstract")]
    leaf = [f["name"] for f in feats if not f.get("rels")]
    compound = [f["name"] for f in feats if f.get("rels")]
    isleaf = set(leaf)
    nrel = sum(len(f.get("rels", [])) for f in feats)

    def has(f, kind):
        return any(rel_class(r["min"], r["max"], len(r["children"])) == kind for r in f.get("rels", []))
    groups = [f["name"] for f in feats if any(len(r["children"]) > 1 for r in f.get("rels", []))]
    nchild = {f["name"]: sum(len(r["children"]) for r in f.get("rels", [])) for f in feats}
    depths = leaf_depths(spec)
    ctc_names = [S.ast_names(c["ast"]) for c in spec.get("ctcs", [])]
    cpf = [sum(n in cn for cn in ctc_names) for n in names]
    fic = sorted(set().union(*ctc_names)) if ctc_names else []
    nch, nb = branching(spec)
    L = "listing"
    out = {
        "Features": dict(result=names, size=len(names), share_of=None, kind=L),
        "Abstract features": dict(result=abstract, size=len(abstract), share_of="Features", kind=L),
        "Concrete features": dict(result=concrete, size=len(concrete), share_of="Features", kind=L),
        "Leaf features": dict(result=leaf, size=len(leaf), share_of="Features", kind=L),
        "Compound features": dict(result=compound, size=len(compound), share_of="Features", kind=L),
        "Concrete compound features": dict(result=[n for n in concrete if n not in isleaf], share_of="Concrete features", kind=L),
        "Concrete leaf features": dict(result=[n for n in concrete if n in isleaf], share_of="Concrete features", kind=L),
        "Abstract compound features": dict(result=[n for n in abstract if n not in isleaf], share_of="Abstract features", kind=L),
        "Abstract leaf features": dict(result=[n for n in abstract if n in isleaf], share_of="Abstract features", kind=L),
        "Tree relationships": dict(result=None, size=nrel, share_of=None, kind=L),
        "Root feature": dict(result=spec["root"]["name"], size=1, share_of="Features", kind="scalar"),
        "Top features": dict(result=[c["name"] for r in spec["root"].get("rels", []) for c in r["children"]],
                             share_of="Features", kind=L),
        "Solitary features": dict(result=solitary, share_of="Features", kind=L),
        "Grouped features": dict(result=grouped, share_of="Features", kind=L),
        "Mandatory features": dict(result=mandatory, share_of="Solitary features", kind=L),
        "Optional features": dict(result=optional, share_of="Solitary features", kind=L),
        "Feature groups": dict(result=groups, share_of="Tree relationships", kind=L),
        "Alternative groups": dict(result=[f["name"] for f in feats if has(f, "alternative")], share_of="Feature groups", kind=L),
        "Or groups": dict(result=[f["name"] for f in feats if has(f, "or")], share_of="Feature groups", kind=L),
        "Mutex groups": dict(result=[f["name"] for f in feats if has(f, "mutex")], share_of="Feature groups", kind=L),
        "Cardinality groups": dict(result=[f["name"] for f in feats if has(f, "cardinal")], share_of="Feature groups", kind=L),
        "Branching factor": dict(result=(nch / nb) if nb else None, kind="value", tol=0.005),
        "Min children per feature": dict(result=min((nchild[n] for n in compound), default=None), kind="value"),
        "Max children per feature": dict(result=max(nchild.values()), kind="value"),
        "Avg children per feature": dict(result=sum(nchild.values()) / len(names), kind="value", tol=0.005),
        "Depth of tree": dict(result=max(depths), kind="value"),
        "Max depth of tree": dict(result=max(depths), kind="value"),
        "Mean depth of tree": dict(result=statistics.mean(depths), kind="value", tol=0.005),
        "Median depth of tree": dict(result=statistics.median(depths), kind="value", tol=0.005),
        "Cross-tree constraints": dict(result=None, size=len(spec.get("ctcs", [])), share_of=None, kind=L),
        "Simple constraints": dict(result=None, share_of="Cross-tree constraints", kind=L),
        "Requires constraints": dict(result=None, share_of="Simple constraints", kind=L),
        "Excludes constraints": dict(result=None, share_of="Simple constraints", kind=L),
        "Complex constraints": dict(result=None, share_of="Cross-tree constraints", kind=L),
        "Pseudo-complex constraints": dict(result=None, share_of="Complex constraints", kind=L),
        "Strict-complex constraints": dict(result=None, share_of="Complex constraints", kind=L),
        "Min constraints per feature": dict(result=min(cpf), kind="value"),
        "Max constraints per feature": dict(result=max(cpf), kind="value"),
        "Avg constraints per feature": dict(result=statistics.mean(cpf), kind="value", tol=0.005),
        "Features in constraints": dict(result=fic, share_of="Features", kind=L),
    }
    for v in out.values():
        if v.get("kind") == L and v.get("result") is not None and "size" not in v:
            v["size"] = len(v["result"])
    return out

"""Validate MANIFEST.json and evidence/*.json against the schemas (python3-vt has jsonschema)."""
import glob, json, sys
import jsonschema
ms = json.load(open("/root/.vp/MANIFEST.schema.json")); es = json.load(open("/root/.vp/EVIDENCE.schema.json"))
jsonschema.validate(json.load(open("/verif/MANIFEST.json")), ms)
bad = 0
for p in sorted(glob.glob("/verif/evidence/*.json")):
    try:
        jsonschema.validate(json.load(open(p)), es)
    except Exception as e:
        bad += 1; print("INVALID", p, str(e)[:300])
print("manifest ok; evidence files:", len(glob.glob('/verif/evidence/*.json')), "invalid:", bad)
sys.exit(1 if bad else 0)

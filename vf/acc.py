"""Per-shard accumulator of observations, and its merge."""
import collections
import json
import traceback

MAX_SAMPLES = 6
MAX_FAILS_KEPT = 400


class Acc:
    def __init__(self, prop):
        self.prop = prop
        self.evaluations = 0
        self.keys = set()             # distinct non-trivial case digests
        self.classes = collections.defaultdict(lambda: collections.Counter())  # class -> held/failed
        self.counters = collections.Counter()
        self.samples = []
        self.fails = []               # failure records (dicts)
        self.fail_groups = collections.Counter()
        self.inconclusive = []
        self.extra = {}               # free-form per-shard data for finalize()
        self.programs = 0
        self.disagreements_checked = 0

    # -- observations ------------------------------------------------------------------------
    def held(self, cls="all", key=None, n=1):
        self.evaluations += n
        self.classes[cls]["held"] += n
        if key is not None:
            self.keys.add(key)

    def fail(self, cls, clause, where, tags, symptom, detail, payload=None, key=None):
        """A refuting observation.  `tags` are the input classes the failure is attributed to
        (empty = the base / an unattributed failure: always a VIOLATION)."""
        self.evaluations += 1
        self.classes[cls]["failed"] += 1
        if key is not None:
            self.keys.add(key)
        g = (clause, where, tuple(sorted(tags)), symptom)
        self.fail_groups[g] += 1
        if self.fail_groups[g] <= 3 and len(self.fails) < MAX_FAILS_KEPT:
            self.fails.append({"clause": clause, "where": where, "tags": sorted(tags), "symptom": symptom,
                               "detail": str(detail)[:1500], "payload": payload, "class": cls})

    def count(self, name, n=1):
        self.counters[name] += n

    def sample(self, obj, force=False):
        if force or len(self.samples) < MAX_SAMPLES:
            self.samples.append(obj)

    def inconc(self, reason):
        self.inconclusive.append(reason)

    # -- (de)serialisation ---------------------------------------------------------------------
    def to_json(self):
        return {"prop": self.prop, "evaluations": self.evaluations, "keys": sorted(self.keys),
                "classes": {k: dict(v) for k, v in self.classes.items()},
                "counters": dict(self.counters), "samples": self.samples, "fails": self.fails,
                "fail_groups": [[list(k[:2]) + [list(k[2]), k[3]], v] for k, v in self.fail_groups.items()],
                "inconclusive": self.inconclusive, "extra": self.extra,
                "programs": self.programs, "disagreements_checked": self.disagreements_checked}

    @staticmethod
    def merge(prop, parts):
        a = Acc(prop)
        extras = []
        for p in parts:
            a.evaluations += p["evaluations"]
            a.keys.update(p["keys"])
            for k, v in p["classes"].items():
                a.classes[k].update(v)
            a.counters.update(p["counters"])
            for s in p["samples"]:
                if len(a.samples) < MAX_SAMPLES * 2:
                    a.samples.append(s)
            a.fails.extend(p["fails"])
            for (k, v) in p["fail_groups"]:
                a.fail_groups[(k[0], k[1], tuple(k[2]), k[3])] += v
            a.inconclusive.extend(p["inconclusive"])
            a.programs += p.get("programs", 0)
            a.disagreements_checked += p.get("disagreements_checked", 0)
            extras.append(p.get("extra", {}))
        a.extra = {"shards": extras}
        return a


def guard(acc, cls, where, tags, payload, fn, clause="no-exception"):
    """Run fn(); an unexpected exception of the code under test is a refuting observation."""
    try:
        return True, fn()
    except Exception as e:  # noqa: BLE001 - the monitor must see everything
        tb = traceback.extract_tb(e.__traceback__)
        site = next((f"{f.filename.rsplit('/', 1)[-1]}:{f.name}" for f in reversed(tb)
                     if "fm_metamodel" in f.filename or "flamapy/core" in f.filename), "?")
        acc.fail(cls, clause, where, tags, f"raises:{type(e).__name__}",
                 f"{type(e).__name__}: {e} @ {site}", payload)
        return False, None

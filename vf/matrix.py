"""Print the class table of an evidence file: python -m vf.matrix C05"""
import json, sys
e = json.load(open(f"/verif/evidence/{sys.argv[1]}.json"))
for k, v in sorted(e["coverage"]["classes"].items()):
    print(f"{k:32s} held={v.get('held',0):5d} failed={v.get('failed',0):5d}")

"""Entry point of one shard process: python -m vf.shardmain <PROP> <descfile> <outfile>."""
import importlib
import json
import os
import sys
import time
import traceback


def main():
    prop, descfile, outfile = sys.argv[1:4]
    from vf import env
    env.bootstrap()
    from vf.acc import Acc
    from vf.monitors import reach
    with open(descfile, encoding="utf-8") as fh:
        desc = json.load(fh)
    mod = importlib.import_module(f"vf.checks.{prop.lower()}")
    acc = Acc(prop)
    which = getattr(mod, "CONTRACTS", None)
    if which:
        from vf.monitors import contracts
        contracts.install(which)
    use_reach = desc.get("reach", True)
    if use_reach:
        reach.start(env.pkg_dir())
    t0 = time.time()
    try:
        if desc.get("noop"):
            pass
        elif "replay" in desc:
            mod.replay(desc["replay"], acc)
        else:
            mod.run_shard(desc, acc)
    except Exception:  # harness failure: never a verdict about the repo
        acc.inconc("harness-exception: " + traceback.format_exc()[-1500:])
    if use_reach:
        reach.stop()
    if which:
        for name, cnt in contracts.EVALS.items():
            acc.count("contract-evaluations:" + name, cnt)
        for v in contracts.VIOLATIONS[:20]:
            acc.fail("ambient-contract", "contract:" + v["contract"].split(":")[0], "ambient-contract", [],
                     "contract-broken", v["detail"], {"kind": "contract", "contract": v["contract"]})
    for f in acc.fails:
        f["python_O"] = bool(sys.flags.optimize)
    out = acc.to_json()
    out["reach"] = reach.counts()
    out["wall_s"] = time.time() - t0
    tmp = outfile + ".tmp"
    with open(tmp, "w", encoding="utf-8") as fh:
        json.dump(out, fh, default=str)
    os.replace(tmp, outfile)


if __name__ == "__main__":
    main()

"""Child process of C12: runs every writer on the given models under *this* process's environment
(hash seed, locale, default encoding) and reports, per (writer, model): sha256 of the output, and the
verdicts of the in-process monitors (purity snapshot + write barrier, return == file bytes, audit-hook
I/O, repeated call / rebuilt object determinism, UTF-8 content, reader round trip of non-ASCII names,
Encoding/ResourceWarning raised from repo frames).

usage: python [-X dev -X warn_default_encoding] -m vf.c12child <cases.json> <out.json>
"""
import gc
import hashlib
import json
import locale
import os
import shutil
import sys
import tempfile
import warnings


def main():
    cases_file, out_file = sys.argv[1:3]
    from vf import env
    env.bootstrap()
    if os.environ.get("VF_DECIMAL"):
        # the application's ambient decimal context is part of the environment the output must not depend on
        import decimal
        ctx = decimal.getcontext()
        for item in os.environ["VF_DECIMAL"].split(";"):
            k, v = item.split("=")
            if k == "prec":
                ctx.prec = int(v)
            elif k == "rounding":
                ctx.rounding = getattr(decimal, v)
    from vf import spec as S
    from vf.monitors import purity, audit, reach
    reach.start(env.pkg_dir())
    from flamapy.metamodels.fm_metamodel import transformations as T
    from flamapy.metamodels.fm_metamodel.transformations.pl_writer import PLWriter
    pkg = env.pkg_dir()
    WR = {"uvl": (T.UVLWriter, T.UVLReader, "uvl"), "afm": (T.AFMWriter, T.AFMReader, "afm"),
          "json": (T.JSONWriter, T.JSONReader, "json"), "glencoe": (T.GlencoeWriter, T.GlencoeReader, "gfm.json"),
          "fide": (T.FeatureIDEWriter, T.FeatureIDEReader, "xml"), "splot": (T.SPLOTWriter, None, "sxfm"),
          "clafer": (T.ClaferWriter, None, "txt"), "exp": (PLWriter, None, "exp")}
    with open(cases_file, encoding="utf-8") as fh:
        cases = json.load(fh)
    work = tempfile.mkdtemp(prefix="vf-c12-")
    results = []
    try:
        for ci, case in enumerate(cases):
            spec, writers = case["spec"], case["writers"]
            nonascii = sorted({n for n in S.feature_names(spec) if any(ord(ch) > 127 for ch in n)})
            for wname in writers:
                W, R, ext = WR[wname]
                rec = {"writer": wname, "model": case["digest"], "problems": [], "sha": None}
                results.append(rec)
                m = S.build(spec)
                path = os.path.join(work, f"c{ci}.{wname}.{ext}")
                before = S.snapshot(m)
                with warnings.catch_warnings(record=True) as wlist:
                    warnings.simplefilter("always")
                    try:
                        with purity.window(m) as pw, audit.window() as aw:
                            ret = W(path, m).transform()
                    except Exception as e:  # noqa: BLE001
                        rec["problems"].append(["no-exception", f"raises:{type(e).__name__}", str(e)[:200]])
                        continue
                    gc.collect()
                after = S.snapshot(m)
                if before != after:
                    rec["problems"].append(["model-unchanged", "mutated",
                                            f"{S.first_diff(before, after)} writes={pw.writes[:4]}"])
                elif pw.writes:
                    rec["restore"] = len(pw.writes)
                opens = [e for e in aw.events if e[0] == "open"]
                wopens = [e for e in opens if any(c in e[2] for c in "wax+")]
                others = [e for e in aw.events if e[0] != "open"] + [e for e in opens if e not in wopens and e[1] != path]
                if len(wopens) != 1 or os.path.abspath(wopens[0][1]) != os.path.abspath(path):
                    rec["problems"].append(["opens-only-destination", "io", f"write-opens={wopens}"])
                if others:
                    rec["problems"].append(["opens-only-destination", "io", f"other events={others[:3]}"])
                with open(path, "rb") as fh:
                    data = fh.read()
                retb = ret.encode("utf-8") if isinstance(ret, str) else bytes(ret)
                if retb != data:
                    rec["problems"].append(["returns-what-it-wrote", "return-differs-from-file",
                                            f"returned {len(retb)} bytes, file has {len(data)} bytes"])
                rec["sha"] = hashlib.sha256(data).hexdigest()[:20]
                for w in wlist:
                    if issubclass(w.category, (EncodingWarning, ResourceWarning)) and str(w.filename).startswith(pkg):
                        rec["problems"].append(["utf8-io", "warning:" + w.category.__name__,
                                                f"{w.filename}:{w.lineno} {w.message}"])
                    elif issubclass(w.category, ResourceWarning) and work in str(w.message):
                        rec["problems"].append(["utf8-io", "warning:ResourceWarning", str(w.message)[:200]])
                # path=None: same value, no I/O
                try:
                    with audit.window() as aw2:
                        ret2 = W(None, m).transform()
                    r2 = ret2.encode("utf-8") if isinstance(ret2, str) else bytes(ret2)
                    if r2 != retb:
                        rec["problems"].append(["function-of-the-model", "path-none-differs", "transform() with path=None differs"])
                    if [e for e in aw2.events if e[0] == "open"]:
                        rec["problems"].append(["opens-only-destination", "io", f"path=None opened {aw2.events[:2]}"])
                except Exception as e:  # noqa: BLE001
                    rec["problems"].append(["no-exception", f"raises:{type(e).__name__}@path-none", str(e)[:200]])
                # repeated call on the same object, and on an independently rebuilt equal object
                p2 = path + ".again"
                r3 = W(p2, m).transform()
                r4 = W(p2, S.build(spec)).transform()
                for label, r in (("repeated-call", r3), ("rebuilt-object", r4)):
                    rb = r.encode("utf-8") if isinstance(r, str) else bytes(r)
                    if rb != retb:
                        rec["problems"].append(["function-of-the-model", label + "-differs", "output differs within one process"])
                # history: the SAME writer object used again after the model got a new root (old root below it)
                try:
                    from flamapy.metamodels.fm_metamodel.models import Feature, Relation
                    mm = S.build(spec)
                    wobj = W(os.path.join(work, "reuse1." + ext), mm)
                    wobj.transform()
                    nr = Feature("NewRoot9", [])
                    nr.add_relation(Relation(nr, [mm.root], 1, 1))
                    mm.root = nr
                    t_reused = wobj.transform()
                    t_fresh = W(os.path.join(work, "reuse2." + ext), mm).transform()
                    if t_reused != t_fresh:
                        rec["problems"].append(["function-of-the-model", "reused-writer-differs",
                                                "a writer object reused after the model's root was replaced writes something else "
                                                "than a new writer on the same model"])
                except Exception as e:  # noqa: BLE001
                    rec["problems"].append(["no-exception", f"raises:{type(e).__name__}@reused-writer", str(e)[:200]])
                # UTF-8 out
                try:
                    text = data.decode("utf-8")
                except UnicodeDecodeError as e:
                    rec["problems"].append(["utf8-io", "not-utf8", str(e)])
                    text = None
                if text is not None:
                    for n in nonascii:
                        esc = json.dumps(n)[1:-1]
                        if n not in text and esc not in text and esc.replace("\\\\", "\\") not in text:
                            rec["problems"].append(["utf8-io", "name-lost", f"{n!r} not in the written file"])
                # UTF-8 in: the matching reader gives the names back under this environment
                if R is not None and case.get("readable", {}).get(wname, True):
                    with warnings.catch_warnings(record=True) as wl2:
                        warnings.simplefilter("always")
                        try:
                            m2 = R(path).transform()
                            got = sorted(S.feature_names(S.observe(m2)))
                            if got != sorted(S.feature_names(spec)):
                                rec["problems"].append(["utf8-io", "names-differ-after-read",
                                                        f"{[n for n in got if n not in S.feature_names(spec)][:3]}"])
                        except Exception as e:  # noqa: BLE001
                            rec["problems"].append(["utf8-io", f"raises:{type(e).__name__}@reader", str(e)[:200]])
                        gc.collect()
                    for w in wl2:
                        if issubclass(w.category, (EncodingWarning, ResourceWarning)) and str(w.filename).startswith(pkg):
                            rec["problems"].append(["utf8-io", "warning:" + w.category.__name__ + "@reader",
                                                    f"{w.filename}:{w.lineno} {w.message}"])
    finally:
        shutil.rmtree(work, ignore_errors=True)
    out = {"env": {"PYTHONHASHSEED": os.environ.get("PYTHONHASHSEED"), "LC_ALL": os.environ.get("LC_ALL"),
                   "PYTHONUTF8": os.environ.get("PYTHONUTF8"), "PYTHONIOENCODING": os.environ.get("PYTHONIOENCODING"),
                   "preferred_encoding": locale.getpreferredencoding(False), "utf8_mode": sys.flags.utf8_mode,
                   "dev_mode": sys.flags.dev_mode, "optimize": sys.flags.optimize, "decimal": os.environ.get("VF_DECIMAL"), "hash_of_a": hash("a")},
           "results": results, "reach": reach.counts()}
    with open(out_file, "w", encoding="utf-8") as fh:
        json.dump(out, fh)


if __name__ == "__main__":
    main()
